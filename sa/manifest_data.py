"""Per-property claim texts for MANIFEST.json (see tools/mkmanifest.py)."""
NOTES = ("Static analysis only: every check parses /repo/src/mqtt (tests excluded) on each run and decides structural "
         "necessary conditions of the property; nothing of the repository is imported or executed. exit 2 + ANALYSIS-ERROR "
         "means the analysis could not decide (vanished anchor, unknown idiom), never a violation.")
BASE_NOTE = ("Trusted: CPython ast; Python semantics of the modelled statement kinds; Twisted contracts as listed in DESIGN.md section 4; "
             "user callbacks do not raise. Decides the named structural clauses, not the behaviour over histories.")
CHECKS = {
 "C14": {"text": "Exhaustive dispatch matrix (4 protocol classes x 3 state slots x 5 API operations and 15 packet types) read off the "
                 "resolved program: each cell classified refuse/honour from the events reachable after the state dispatch on every path, "
                 "compared with the table in the property statement; profile-to-class mapping of the factory; refusal shape "
                 "(MQTTStateError). The property is a table, so this decides it for all states, profiles and call sites at once.",
         "note": BASE_NOTE, "technique": "state-table extraction + call-graph/path effect classification (dispatch matrix)"},
 "C19": {"text": "Ownership / non-interference argument over all call sites: every access of protocol code to the six per-address "
                 "factory registries is subscripted by self.addr (aliases resolved along every path), self.addr is single-assignment from "
                 "the constructor parameter that buildProtocol passes unchanged, per-address containers are fresh, no whole-registry or "
                 "factory.protocol use, no mutation of class/module-level objects reachable from any entry point, the identifier counter "
                 "is the only shared factory field. Decides the structural isolation, not trace equality.",
         "note": BASE_NOTE + " RNG jitter is treated as an input.", "technique": "who-may-access / key-discipline check over resolved registry accesses (ownership analysis)"},
 "C20": {"text": "Guard/interval extraction on every path of the API entry points: accepted interval of each numeric argument (union over "
                 "accepting paths, each path inside it) equals the stated one; accepting paths of connect() refute every forbidden "
                 "argument combination and rejecting paths entail one (no spurious rejection); every rejection is a failed Deferred / raise "
                 "of a ValueError or TypeError subclass (class hierarchy resolved in error.py, unbound names on the raise path included); "
                 "no rejecting path contains a write, queue/window insertion, timer or state change. Decides the guards, not run-time values.",
         "note": BASE_NOTE + " Strict bounds are normalised assuming integer arguments.", "technique": "path-sensitive guard/interval extraction + effect-before-reject ordering check"},
 "C05": {"text": "Who-may-fire, pairing and identity rules on every abstract path of the publisher-capable classes: success-fire of a publish "
                 "Deferred only in the PUBACK/PUBCOMP handlers on the looked-up entry (and at creation for QoS 0); PUBREC transfers, never "
                 "fires; lookups by the received identifier inside try/except KeyError with an effect-free miss branch; fired entries leave "
                 "their registry on the same path (at most once); removed entries are fired, transferred or re-registered (at least once); "
                 "the wire identifier comes from the allocator, equals deferred.msgId, the registry key and the callback argument. Premise checked first (rule 0 of this check): the framing lemma's premises (the rules of C03), since a packet that is mis-framed never reaches the handlers judged here.",
         "note": BASE_NOTE, "technique": "path-sensitive who-may-fire / pairing (typestate of Deferred and registry entry) + def-use identity"},
 "C06": {"text": "Path counting on the PUBLISH and PUBREL handlers of the subscriber-capable classes: replies and deliveries per QoS branch "
                 "on every path, exactly one PUBCOMP on every PUBREL path (hit or miss), delivery only after removal on the hit path, reply "
                 "identifier = received identifier (def-use), delivery argument order as documented, PUBACK/PUBREC/PUBCOMP emitted only in "
                 "these network contexts, receive window touched only by PUBLISH (insert) and PUBREL (remove). Premise checked first (rule 0 of this check): the framing lemma's premises (the rules of C03), since a packet that is mis-framed never reaches the handlers judged here.",
         "note": BASE_NOTE, "technique": "all-paths event counting per branch + who-may-emit table + def-use identity"},
 "C07": {"text": "Path rules on the subscribe/unsubscribe flows of the subscriber-capable classes: normalised topic shapes reach encode() "
                 "unmodified; each accepting path allocates the identifier, registers once under it, arms one timer, writes the stored bytes "
                 "once; SUBACK/UNSUBACK handlers look up by the received identifier (effect-free miss), fire once with the granted list / "
                 "identifier and remove the entry; the window rejection is an ordering comparison that the accepting path entails "
                 "(len(window) < current window) and whose rejecting path has no effect; lifecycle table: a window a non-clean loss keeps "
                 "must be re-sent by the resume path and drained by the clean-start purge. Premise checked first (rule 0 of this check): the framing lemma's premises (the rules of C03), since a packet that is mis-framed never reaches the handlers judged here.",
         "note": BASE_NOTE, "technique": "path-sensitive event pairing + guard entailment + lifecycle fact table (loss/resume/purge loops per registry)"},
 "C08": {"text": "Retry discipline on every abstract path: each retry-timer target resolves and, per path, writes its request's stored bytes once "
                 "and re-arms exactly its own timer for the same request; every entry into a timed window is sent and armed on the same path; DUP "
                 "by constant propagation over calling contexts (0 on first sends, 1<<3 in timer and resume contexts; unconditional for PUBLISH, "
                 "only under the protocol-3.1 test for SUBSCRIBE/UNSUBSCRIBE/PUBREL); no re-encoding or reassignment of content after "
                 "registration; stored bytes written only in first-send/own-timer/resume contexts; delay derives from the request's interval "
                 "object created with the configured initial timeout. The two timing clauses are NOT decided (numeric, random jitter).",
         "note": BASE_NOTE + " Timing clauses (minimum gap, non-shrinking gaps) are outside the family.", "technique": "call-graph resolution + per-path event pairing + constant propagation of the DUP argument over calling contexts"},
 "C09": {"text": "Who-may and ordering rules for the QoS 2 sender on every abstract path: PUBREL created/inserted only on the hit path of the PUBREC "
                 "handler; timer cancellation and removal from the publish window precede the first PUBREL write; element classes of the three "
                 "publisher registries; every retry callback armed with entries of its own registries only; release window emptied only by "
                 "PUBCOMP/purge, publish window only by PUBACK/PUBREC/purge and filled only from the queue. Premise checked first (rule 0 of this check): the framing lemma's premises (the rules of C03), since a packet that is mis-framed never reaches the handlers judged here.",
         "note": BASE_NOTE, "technique": "who-may-do table over trigger contexts + precedence (dominance) of events on paths"},
 "C10": {"text": "Window/queue discipline from the shape of the code on every path: window insertions only inside a refill loop bounded by a "
                 "re-evaluated len(window) < window test (or a counted loop in which every iteration occupies a slot: loop-budget rule); queue "
                 "touched only by append in publish() and popleft in the refill; each popped entry written exactly once; publish() never "
                 "window-rejected; refill triggered after append and after PUBACK/PUBCOMP removal.",
         "note": BASE_NOTE, "technique": "loop-idiom recognition with bound re-evaluation check + container-discipline (allowed operations) table"},
 "C13": {"text": "Timer-handle typestate (NONE/PENDING/FIRED) per handle location and trigger context, using the lifecycle table: every removal "
                 "from a timed window preceded by cancelling that request's alarm or in a context where no element can have a pending timer; "
                 "alarm overwritten only when the old handle is not pending; loss closure stops/cancels and clears every handle location "
                 "before IDLE on every path and arms only the onDisconnection notification; no timer callback leaves its own fired handle "
                 "for later cancel(); keepalive loop started only under keepalive != 0. Silence over virtual time is not observed.",
         "note": BASE_NOTE, "technique": "typestate analysis of timer handles over trigger contexts + lifecycle fact table"},
 "C04": {"text": "Path rules on the handshake and the loss closure of all four protocol classes: connect() accepting paths (one CONNECT, then "
                 "CONNECTING, one timeout of `keepalive or 10`, request recorded, pending Deferred returned); the connect Deferred fired only "
                 "in the CONNACK handler and the timeout closure, exactly once on every handler path incl. exceptional ones (bounded table "
                 "index, no None/fired handles), with the right value and state per return code, timeout cancelled first; loss closure: "
                 "clean-up, then IDLE, then exactly one onDisconnection(reason) iff a handler is set. Orderings as behaviour not explored. Premise checked first (rule 0 of this check): the framing lemma's premises (the rules of C03), since a packet that is mis-framed never reaches the handlers judged here.",
         "note": BASE_NOTE, "technique": "all-paths event counting/ordering + hazard rule for unguarded indexing + handle typestate"},
 "C15": {"text": "Structural clauses of keepalive on every path: periodic call created/started only on an accepted CONNACK under keepalive != 0 "
                 "with period = CONNECT's keepalive (alias, unmodified); PINGREQ routine writes the stored bytes once and arms one deadline with "
                 "the same keepalive whose callback always closes; PINGRESP cancels+clears and is safe on None; loss stops/cancels both handles; "
                 "PINGREQ written only from the periodic call/ping() while CONNECTED. All timing statements are NOT decided. Premise checked first (rule 0 of this check): the framing lemma's premises (the rules of C03), since a packet that is mis-framed never reaches the handlers judged here.",
         "note": BASE_NOTE + " Timing clauses are outside the family.", "technique": "alias (copy) propagation of the keepalive value + who-may-write + handle typestate"},
 "C11": {"text": "Exhaustiveness/identity on the loss closure of the three profile classes: under the clean-session test every Deferred-carrying "
                 "per-address registry (queue, publish, release, subscribe, unsubscribe windows) is drained by a whole-registry loop that "
                 "removes each entry and fires errback with the `reason` parameter itself (entries already fired skipped only under a "
                 ".called test); pairing rules (fire=>unregister, unregister=>fire); the clean-up is reached on every path (no exception, no "
                 "fired/None handle). Which kind of loss occurred and the next connection's behaviour are not explored.",
         "note": BASE_NOTE, "technique": "loop-idiom exhaustiveness over the registry set + def-use identity of the errback argument + handle typestate"},
 "C12": {"text": "Structural clauses of session persistence on every path of the publisher-capable classes: non-clean loss fires/removes nothing; "
                 "resume (accepted CONNACK, negated clean test) re-sends every entry of the release and publish windows in insertion order; "
                 "clean CONNACK purges with MQTTSessionCleared every publish registry a non-clean loss keeps; no re-send on the clean branch, "
                 "no failure on the resume branch; publish honoured while CONNECTING. One known finding (queue not purged at a clean CONNACK). "
                 "NOT decided: exemption of requests made before the CONNACK; release of held-back messages as the window allows.",
         "note": BASE_NOTE, "technique": "lifecycle fact table (loss/resume/purge loop idioms per registry) + control dependence on the clean-session test"},
 "C16": {"text": "Containment rules over the closure of dataReceived and of every timer target, all four protocol classes: decode() always inside "
                 "a try catching Exception that reaches a close; the one dispatch-after-failed-decode sibling is tolerated only under three "
                 "checked facts; type-nibble lookup guarded, unknown/broker-bound types only abort; hazards outside catching try (unbounded "
                 "constant-table index, unguarded registry lookup by network id, None handle, fired handle); no abstract path of these entry "
                 "points leaves by exception; every call resolves, no undefined name; packets outside their state/profile and corrupt packets "
                 "have no delivery, success or registry effect. Value-level faults that do not raise are not decided.",
         "note": BASE_NOTE + " Implicit exceptions are modelled for: decode(), registry lookups, None dereference, unresolved attributes, unbound names.",
         "technique": "exceptional-edge path analysis + hazard (unchecked-use) rules + handle typestate + call resolution"},
 "C17": {"text": "Three structural clauses: interval arithmetic over the folded constants of every return expression of the allocator (value within "
                 "1..65535); who-may-assign: the msgId reaching encode() of PUBLISH (QoS>0)/SUBSCRIBE/UNSUBSCRIBE is an allocator result on every "
                 "accepting path; the allocator reads every registry of unfinished requests (necessary for avoiding live identifiers after the "
                 "counter wraps). Collision-freedom over concrete histories is not decided.",
         "note": BASE_NOTE, "technique": "interval analysis on folded constants + def-use (who-may-assign) + read-set of the allocator closure"},
 "C18": {"text": "Who-may-write table over all trigger contexts of all four classes: each write sends the whole encoding/stored buffer of one "
                 "client-to-broker PDU object; CONNECT only by connect() in IDLE and nothing else written in IDLE; DISCONNECT only by "
                 "disconnect() with a close after it; return to IDLE outside the loss closure closes the transport; loss closure writes "
                 "nothing and cancels writing timers; W4 (no write reachable after DISCONNECT) is a recorded known finding. Premise checked first (W0): every encoder produces the prescribed packet (the rules of C02).",
         "note": BASE_NOTE + " Transport liveness is not modelled.", "technique": "who-may-write table over event x trigger context + phase reachability"},
 "C03": {"text": "Premises of the framing lemma decided on the abstract paths of dataReceived for all four classes: framer state is the carry buffer "
                 "only; carry reassigned to carry[E:] on the same path as the dispatch of carry[:E] with the same E under len(carry) >= E; "
                 "E = decodeLength(carry[1:]) + scanned width + 1 with the scan starting at byte 1 and using decodeLength's continuation bit; "
                 "non-dispatching paths leave the carry alone and leave the loop; no stale length; dispatcher passes the whole slice to at most "
                 "one handler. Trace equality over chunkings is the lemma's conclusion, not observed.",
         "note": BASE_NOTE + " decodeLength's correctness is C01's subject.", "technique": "path-sensitive def-use / alias analysis of the framer (lemma premises as structural rules)"},
 "C01": {"text": "Sibling agreement of the codec from layouts extracted out of mqtt/pdu.py by abstract interpretation of the buffer-building code "
                 "(encoder: symbolic byte segments; decoder: reads at symbolic cursor positions; helpers: radix constants by role): radix/shape "
                 "agreement of the three primitive pairs, fields read by encode() assigned by decode(), same kind at the same symbolic offset for "
                 "every combination of optional sections (each announced by a flag bit set under the same guard and read under a test of that "
                 "bit), flag masks contiguous at the written shift, length prefixes counting the bytes that follow, deterministic encode(). "
                 "NOT decided: value-level inverse property of the primitives on their numeric domains.",
         "note": BASE_NOTE + " No byte is ever encoded or decoded by the check.", "technique": "layout extraction (abstract interpretation of encode/decode) + sibling-agreement comparison"},
 "C02": {"text": "Encoder layouts compared with a table transcribed from the OASIS text: fixed-header byte of all 14 types (PUBLISH flag positions), "
                 "remaining length measuring exactly the buffers appended after it, body field kinds/order, optional CONNECT sections and flag bit "
                 "positions, version constants, byte-length prefixes, DUP patching of stored packets at byte 0 only, unrepresentable input raising "
                 "ValueError/TypeError subclasses (65535 and 268435455 guards). Decoders covered through C01's agreement rules. Value-level "
                 "equality with a reference encoder is NOT decided.",
         "note": BASE_NOTE + " The specification table in sa/rules/c02.py is trusted.", "technique": "layout extraction + comparison against a transcribed specification table"},
}
NOT_APPLICABLE = {}
