"""A5: connection lifecycle facts per registry, read off the loss closure and the accepted-CONNACK closure."""
from .model import AnalysisError
from .terms import SELF, FAC, NONE, show, is_const, mentions, subterms
from .catalogue import catalogue, is_effect
from .fieldroles import is_alarm_field, no_interval
from .rules.common import contexts, where, short


def clean_field(cat):
    """The protocol attribute that remembers CONNECT's clean-session flag, and where it is recorded.
    Returns (field, recorded_on_every_accepting_connect_path, event)."""
    conn = ("attr", SELF, "connReq")
    field = None
    ev = None
    accept = 0
    recorded = 0
    for tr in contexts(cat):
        if tr.kind == "API" and tr.name == "connect" and tr.slot == "IDLE":
            wrote = any(e.kind == "WRITE" for e in tr.events)
            if wrote:
                accept += 1
            for e in tr.events:
                if e.kind == "SETATTR" and e.a["obj"] == SELF and e.a["val"] == ("param", "cleanStart"):
                    field, ev = e.a["field"], e
                    if wrote:
                        recorded += 1
    if field is None:
        for tr in contexts(cat):
            for e in tr.events:
                if e.kind == "SETATTR" and e.a["obj"] == SELF and e.a["val"] == ("attr", conn, "cleanStart"):
                    field, ev = e.a["field"], e
    if field is None:
        raise AnalysisError("anchor vanished: no protocol field is assigned connect()'s cleanStart")
    return field, (accept > 0 and recorded == accept), ev


def session_field(cat, param):
    """The protocol attribute that remembers one of CONNECT's session parameters (cleanStart, version), and the discipline of
    its assignments: {'field', 'at_connect' (assigned from the parameter on every accepting path of connect(), before the CONNECT
    is written), 'event', 'elsewhere' (assignments of that field anywhere else: rejecting paths of connect(), connect() refused
    by the state, handlers, timers - each lets something other than the CONNECT of this connection decide the mode)}."""
    conn = ("attr", SELF, "connReq")
    vals = (("param", param), ("attr", conn, param), ("attr", ("param", "request"), param))
    field = None
    ev = None
    for tr in contexts(cat):
        for e in tr.events:
            if e.kind == "SETATTR" and e.a["obj"] == SELF and e.a["val"] in vals:
                if field is None or (tr.kind == "API" and tr.name == "connect"):
                    field, ev = e.a["field"], e
    if field is None:
        return {"field": None, "at_connect": False, "event": None, "elsewhere": []}
    accept = recorded = 0
    elsewhere = []
    for tr in contexts(cat):
        sets = [e for e in tr.events if e.kind == "SETATTR" and e.a["obj"] == SELF and e.a["field"] == field]
        accepting = tr.kind == "API" and tr.name == "connect" and tr.slot == "IDLE" and any(e.kind == "WRITE" for e in tr.events)
        if accepting:
            accept += 1
            w = next(e for e in tr.events if e.kind == "WRITE")
            good = [e for e in sets if e.a["val"] in vals and e.seq < w.seq]
            if good:
                recorded += 1
            elsewhere.extend((tr, e) for e in sets if e not in good)
        else:
            # re-recording the parameter of the very request whose CONNECT was accepted (self.connReq.<param>, while that request is
            # the pending one) changes nothing
            same = [e for e in sets if e.a["val"] == ("attr", conn, param) and tr.kind == "NET" and tr.name == "CONNACK" and tr.slot == "CONNECTING"]
            elsewhere.extend((tr, e) for e in sets if e not in same)
    return {"field": field, "at_connect": accept > 0 and recorded == accept, "event": ev, "elsewhere": elsewhere}


def rule_session_field(ctx, cat, rule, param, what, consequence):
    """Obligations for one session parameter (see session_field)."""
    from .rules.common import where, cls_short
    sf = session_field(cat, param)
    cq = cls_short(cat.cls.qual)
    if sf["field"] is None:
        ctx.ob(rule, "%s %s of the CONNECT is remembered" % (cq, what), False, where=cat.cls.module.path, construct="session/%s/not-recorded" % param,
               msg="no protocol field is assigned connect()'s %s: %s" % (param, consequence))
        return sf
    ev = sf["event"]
    ctx.ob(rule, "%s %s is recorded when connect() is accepted, before the CONNECT is written" % (cq, what), sf["at_connect"],
           where=where(ev) if ev is not None else cat.cls.module.path, function=ev.func if ev is not None else "",
           construct="session/%s/recorded-at-connect" % param,
           msg="self.%s is not assigned from connect()'s %s on every accepting path of connect() before the CONNECT goes out: %s" % (
               sf["field"], param, consequence))
    seen = set()
    for tr, e in sf["elsewhere"]:
        key = (e.func, tr.kind)
        if key in seen:
            continue
        seen.add(key)
        ctx.ob(rule, "%s %s is decided by the accepted CONNECT only (%s)" % (cq, what, tr.label()), False, where=where(e), function=e.func,
               construct="session/%s/assigned-elsewhere/%s/%s" % (param, e.func, tr.kind),
               msg="self.%s is also assigned in context %s (%s), not only when connect() is accepted: %s" % (
                   sf["field"], tr.label(), e.func.split(".")[-1], consequence))
    if not sf["elsewhere"]:
        ctx.ob(rule, "%s %s is assigned nowhere else" % (cq, what), True, where=where(ev) if ev is not None else "", construct="session/%s/only-at-connect" % param,
               nontrivial=False)
    return sf


def clean_fact(path, field):
    """Truth of the clean-session flag on this path (from its branch conditions), or None if the path does not test it."""
    aliases = (("attr", SELF, field), ("attr", ("attr", SELF, "connReq"), "cleanStart"), ("param", "cleanStart"))
    for c in path.conds:
        t, pol = c.term, c.pol
        while isinstance(t, tuple) and t and t[0] == "not":
            t, pol = t[1], not pol
        if t in aliases:
            return pol
        if isinstance(t, tuple) and t[0] == "cmp" and t[2] in aliases and is_const(t[3]) and isinstance(t[3][1], bool):
            if t[1] in ("==", "is"):
                return pol if t[3][1] else (not pol)
            if t[1] in ("!=", "is not"):
                return (not pol) if t[3][1] else pol
    return None


def loop_over(e, reg):
    """Is LOOP event e an iteration over all of registry `reg`?  (for ... in R[addr].items()/values()/list(R[addr]) or
    while R[addr]: ... popleft)"""
    if e.kind != "LOOP":
        return False
    it = e.a.get("iter")
    if it is not None:
        # for x in R[addr] / R[addr].items()|values()|keys() / list|tuple|sorted|reversed(...) of those
        t = it
        for _ in range(4):
            if isinstance(t, tuple) and t and t[0] == "call" and isinstance(t[1], tuple) and t[1][0] == "builtin" \
                    and t[1][1] in ("list", "tuple", "sorted", "reversed", "iter", "set") and t[2]:
                t = t[2][0]
            else:
                break
        if isinstance(t, tuple) and t and t[0] == "call" and isinstance(t[1], tuple) and t[1][0] == "attr" and t[1][2] in ("items", "values", "keys", "copy"):
            t = t[1][1]
        return isinstance(t, tuple) and t[:2] == ("reg", reg)
    t = e.a.get("test")
    if _snapshot_of(t, reg):
        # keys = list(R[addr]); while keys: k = keys.pop() ...: every iteration takes one key out of the snapshot, until none is left
        return all(any(x.kind == "SNAPPOP" and x.a["snap"] == t for x in bp.walk()) for bp in e.a["body"] if bp.exit_kind() != "raise")
    if t == ("const", True):
        # while True: x = R.popleft() ... except IndexError: break  - runs until the registry is empty
        return any(x.kind == "LOOKUP" and x.a.get("reg") == reg and str(x.a.get("how", "")).endswith("-empty") for bp in e.a["body"] for x in bp.walk())
    if t is not None:
        return any(isinstance(x, tuple) and x[:2] == ("reg", reg) for x in subterms(t))
    return False


def _snapshot_of(t, reg):
    """t is list(R[addr]) / sorted(R[addr]) / list(R[addr].keys()|values()|items()): a snapshot of the whole registry row."""
    if not (isinstance(t, tuple) and t[:1] == ("call",) and isinstance(t[1], tuple) and t[1][:1] == ("builtin",) and t[1][1] in ("list", "sorted")
            and len(t) > 2 and t[2]):
        return False
    x = t[2][0]
    if isinstance(x, tuple) and x[:1] == ("call",) and isinstance(x[1], tuple) and x[1][:1] == ("attr",) and x[1][2] in ("items", "values", "keys", "copy"):
        x = x[1][1]
    return isinstance(x, tuple) and x[:2] == ("reg", reg)


def loops_over(events, reg):
    return [e for e in events if loop_over(e, reg)]


def elem_of(t, reg):
    return isinstance(t, tuple) and t and t[0] in ("elem", "popped") and t[1] == reg


def body_drains(bp, reg):
    """One iteration removes an element of reg and fires its Deferred with errback (possibly guarded by .called)."""
    evs = list(bp.walk())
    un = [e for e in evs if e.kind == "UNREG" and e.a["reg"] == reg]
    fr = [e for e in evs if e.kind == "FIRE" and e.a["how"] == "errback" and isinstance(e.a["dfr"], tuple)
          and e.a["dfr"][0] == "attr" and elem_of(e.a["dfr"][1], reg)]
    return bool(un), fr


def _pending_arm(bp, lp, reg):
    """Is this iteration taken under 'the element's alarm is not None' (a request of this very connection)?"""
    for c in bp.conds[len(lp.conds):]:
        t, pol = c.term, c.pol
        while isinstance(t, tuple) and t and t[0] == "not":
            t, pol = t[1], not pol
        if isinstance(t, tuple) and t[0] == "nonnull" and isinstance(t[1], tuple) and t[1][0] == "attr" and is_alarm_field(t[1][2]) \
                and elem_of(t[1][1], reg) and pol is True:
            return True
        if isinstance(t, tuple) and t[0] == "attr" and is_alarm_field(t[2]) and elem_of(t[1], reg) and pol is True:
            return True
    return False


def drains(events, reg, skip_pending=False):
    """Every element of reg is removed and failed: a loop over reg whose every normally-ending iteration unregisters and
    either fires errback or skips the fire only under an 'already called' test.  Returns (ok, fire events)."""
    for lp in loops_over(events, reg):
        ok = True
        fires = []
        until_empty = lp.a.get("test") == ("const", True)
        if lp.a.get("lkind") == "while" and not until_empty and not _emptiness_test(lp.a.get("test"), reg) \
                and not _snapshot_of(lp.a.get("test"), reg):
            continue       # a while loop drains the registry only if it runs until the registry is empty
        pre_ok = skip_pending is True or (skip_pending == "after-cancel" and cancels(events[:events.index(lp)], reg)[0])
        for bp in lp.a["body"]:
            if until_empty and bp.exit_kind() in ("break", "return") and any(
                    x.kind == "LOOKUP" and x.a.get("reg") == reg and str(x.a.get("how", "")).endswith("-empty") for x in bp.walk()) \
                    and not any(x.kind in ("UNREG", "FIRE", "WRITE") for x in bp.walk()):
                continue       # the exit taken when the registry is found empty
            if bp.exit_kind() not in ("fall", "continue"):
                ok = False
                continue
            if _pending_arm(bp, lp, reg):
                # entries with a live alarm: either impossible here (alarms were just cancelled) or requests of this very
                # connection, which a purge must leave alone; such an iteration must not touch the entry at all
                if pre_ok and not any(e.kind in ("UNREG", "FIRE") for e in bp.walk()):
                    continue
            un, fr = body_drains(bp, reg)
            if not un:
                ok = False
            if fr:
                fires.extend(fr)
            else:
                # accepted only when the path is the 'Deferred already called' arm
                facts = bp.st.facts if bp.st is not None else {}
                called = any(isinstance(k, tuple) and k[0] == "truthy" and isinstance(k[1], tuple) and k[1][0] == "attr"
                             and k[1][2] == "called" and v is True for k, v in facts.items())
                if not called:
                    ok = False
        if ok and fires:
            return True, fires
    return False, []


def _emptiness_test(t, reg):
    """Is the loop test exactly 'the registry is not empty'?  (R, len(R), len(R) > 0, len(R) != 0, len(R) >= 1)"""
    def is_reg(x):
        return isinstance(x, tuple) and x[:2] == ("reg", reg)

    def is_len(x):
        return isinstance(x, tuple) and x[0] == "call" and x[1] == ("builtin", "len") and len(x[2]) == 1 and is_reg(x[2][0])
    if is_reg(t) or is_len(t):
        return True
    if isinstance(t, tuple) and t[0] == "cmp" and is_len(t[2]) and is_const(t[3]):
        return (t[1], t[3][1]) in ((">", 0), ("!=", 0), (">=", 1))
    return False


def body_rearms(bp, reg):
    evs = list(bp.walk())
    arm = [e for e in evs if e.kind == "ARM" and any(elem_of(x, reg) for x in e.a["args"])]
    wr = [e for e in evs if e.kind == "WRITE" and any(elem_of(x, reg) for x in subterms(e.a["data"]))]
    return arm, wr


def rearms(events, reg):
    """Every element of reg is sent again with a fresh timer."""
    for lp in loops_over(events, reg):
        ok = True
        for bp in lp.a["body"]:
            if bp.exit_kind() not in ("fall", "continue"):
                ok = False
                continue
            if _pending_arm(bp, lp, reg) and not any(e.kind in ("WRITE", "ARM") for e in bp.walk()):
                continue       # a request of this very connection: already on its way, the resume leaves it alone
            arm, wr = body_rearms(bp, reg)
            if len(wr) != 1 or len(arm) > 1:
                ok = False
            if not arm:
                # tolerated only for entries without retry interval (QoS 0 cannot be in a window; checked elsewhere)
                facts = bp.st.facts if bp.st is not None else {}
                if not no_interval(facts):
                    ok = False
        if ok:
            return True, lp
    return False, None


def cancels(events, reg):
    """A loop over reg that cancels and clears every element's alarm (a None test is allowed)."""
    for lp in loops_over(events, reg):
        ok = True
        for bp in lp.a["body"]:
            if bp.exit_kind() not in ("fall", "continue"):
                ok = False
                continue
            evs = list(bp.walk())
            cn = [e for e in evs if e.kind == "CANCEL" and isinstance(e.a["handle"], tuple) and e.a["handle"][0] == "attr"
                  and elem_of(e.a["handle"][1], reg)]
            if not cn:
                facts = bp.st.facts if bp.st is not None else {}
                isnone = any(isinstance(k, tuple) and k[0] in ("nonnull", "truthy") and isinstance(k[1], tuple)
                             and k[1][0] == "attr" and is_alarm_field(k[1][2]) and elem_of(k[1][1], reg) and v is False
                             for k, v in facts.items())
                if not isnone:
                    ok = False
        if ok:
            return True, lp
    return False, None


def clears(events, reg):
    """A loop over reg after which every element's alarm field is None: each iteration stores None or ran under 'alarm is None'."""
    for lp in loops_over(events, reg):
        ok = True
        for bp in lp.a["body"]:
            if bp.exit_kind() not in ("fall", "continue"):
                ok = False
                continue
            evs = list(bp.walk())
            st = [e for e in evs if e.kind == "SETATTR" and is_alarm_field(e.a["field"]) and elem_of(e.a["obj"], reg)]
            if st:
                if st[-1].a["val"] != NONE:
                    ok = False
                continue
            facts = bp.st.facts if bp.st is not None else {}
            isnone = any(isinstance(k, tuple) and k[0] in ("nonnull", "truthy") and isinstance(k[1], tuple)
                         and k[1][0] == "attr" and is_alarm_field(k[1][2]) and elem_of(k[1][1], reg) and v is False
                         for k, v in facts.items())
            if not isnone:
                ok = False
        if ok:
            return True, lp
    return False, None


class Lifecycle:
    def __init__(self, analysis, cls):
        self.a = analysis
        self.cat = catalogue(analysis, cls)
        self.cls = cls
        self.clean, self.clean_at_connect, self.clean_event = clean_field(self.cat)
        trs = contexts(self.cat)
        self.loss = [tr for tr in trs if tr.kind == "LOSS"]
        self.loss_clean = [tr for tr in self.loss if clean_fact(tr.path, self.clean) is True]
        self.loss_persist = [tr for tr in self.loss if clean_fact(tr.path, self.clean) is False]
        self.loss_unsplit = [tr for tr in self.loss if clean_fact(tr.path, self.clean) is None]
        ok_ack = []
        for tr in trs:
            if tr.kind == "NET" and tr.name == "CONNACK" and tr.slot == "CONNECTING" and tr.decode_ok:
                if any(e.kind == "STATE" and e.a["slot"] == "CONNECTED" for e in tr.events):
                    ok_ack.append(tr)
        self.connack_ok = ok_ack
        self.ack_clean = [tr for tr in ok_ack if clean_fact(tr.path, self.clean) is True]
        self.ack_persist = [tr for tr in ok_ack if clean_fact(tr.path, self.clean) is False]
        self.ack_unsplit = [tr for tr in ok_ack if clean_fact(tr.path, self.clean) is None]

    # facts -----------------------------------------------------------------
    def all_(self, trs, pred):
        return bool(trs) and all(pred(tr) for tr in trs)

    def loss_drains(self, reg):
        """On every clean-session loss path (and every path that does not test the flag) reg is drained."""
        return self.all_(self.loss_clean + self.loss_unsplit, lambda tr: drains(tr.path.events, reg, "after-cancel")[0])

    def loss_keeps(self, reg):
        """Some non-clean loss path leaves elements in reg."""
        trs = self.loss_persist + self.loss_unsplit
        return any(not drains(tr.path.events, reg, "after-cancel")[0] for tr in trs) if trs else False

    def loss_cancels(self, reg):
        return self.all_(self.loss, lambda tr: tr.path.exit_kind() == "raise" or cancels(tr.path.events, reg)[0])

    def loss_clears(self, reg):
        return self.all_(self.loss, lambda tr: tr.path.exit_kind() == "raise" or clears(tr.path.events, reg)[0])

    def resume_rearms(self, reg):
        return self.all_(self.ack_persist + self.ack_unsplit, lambda tr: rearms(tr.path.events, reg)[0])

    def purge_drains(self, reg):
        return self.all_(self.ack_clean + self.ack_unsplit, lambda tr: drains(tr.path.events, reg, True)[0])

    def reg_in(self, reg, slot):
        """Can an element enter `reg` through an operation or packet handled while self.state is `slot`?"""
        for tr in contexts(self.cat):
            if tr.kind in ("API", "NET") and tr.slot == slot:
                if any(e.kind == "REG" and e.a["reg"] == reg for e in tr.events):
                    return True
        return False


def lifecycle(analysis, cls):
    lc = analysis.__dict__.setdefault("_lifecycles", {})
    if cls.qual not in lc:
        lc[cls.qual] = Lifecycle(analysis, cls)
    return lc[cls.qual]
