"""Agreement of the encoder and decoder layouts of one PDU class (rules L2-L5 of C01, inputs of C02)."""
import itertools

from .model import AnalysisError
from .codec import EncoderLayout, DecoderLayout, Lin, U


class Problem:
    def __init__(self, rule, cls, what, msg, node=None):
        self.rule, self.cls, self.what, self.msg, self.node = rule, cls, what, msg, node


def src_field(v):
    """Field name an encoder value descriptor ultimately reads, or None."""
    if not isinstance(v, tuple):
        return None
    if v[0] == "field":
        return v[1]
    if v[0] in ("item", "len"):
        return src_field(v[1])
    return None


def enc_items(enc):
    """Encoder items in wire order: header items, then body items with body-relative offsets.
    Returns (header_items, remlen_item, body_items)."""
    flat = enc.layout()
    hdr, body = [], []
    remlen = None
    off = Lin(0)
    nsym = [0]

    def walk(segs, off, out, ctx):
        prev = None
        for sg in segs:
            k = sg[0]
            if k == "byte":
                out.append(dict(kind="byte", v=sg[1], off=off, text=sg[2], ctx=ctx))
                off = off.add(1)
            elif k == "u16":
                it = dict(kind="u16", v=sg[1], off=off, text=sg[2], ctx=ctx)
                out.append(it)
                off = off.add(2)
            elif k == "str":
                nsym[0] += 1
                sym = "V%d" % nsym[0]
                out.append(dict(kind="str", v=sg[1], off=off, text=sg[2], sym=sym, ctx=ctx))
                off = off.add(Lin(2, (sym,)))
            elif k in ("text", "raw"):
                it = dict(kind=k, v=sg[1], off=off, text=sg[-1], ctx=ctx, enc=sg[2] if k == "text" else None,
                          errors=sg[3] if k == "text" else None, prefixed=None)
                p = out[-1] if out else None
                if p is not None and p["kind"] == "u16" and p["v"][0] == "len":
                    nsym[0] += 1
                    sym = "V%d" % nsym[0]
                    p["sym"] = sym
                    p["prefix_of"] = it
                    it["prefixed"] = p
                    off = off.add(Lin(0, (sym,)))
                else:
                    off = off.add(Lin(0, ("rest",)))
                out.append(it)
            elif k == "repeat":
                sub = []
                walk(sg[3], Lin(0, ("iter",)), sub, ctx + (("repeat", sg[1]),))
                out.append(dict(kind="repeat", field=sg[1], var=sg[2], items=sub, off=off, ctx=ctx))
                off = off.add(Lin(0, ("rest",)))
            elif k == "opt":
                # an unassumed optional section: both arms are walked for their items; offsets after it are symbolic
                sa, sb = [], []
                walk(sg[2], off, sa, ctx + (("opt", sg[1], True),))
                walk(sg[3], off, sb, ctx + (("opt", sg[1], False),))
                out.extend(sa)
                out.extend(sb)
                off = off.add(Lin(0, ("opt@%s" % sg[1],)))
            elif k == "remlen":
                out.append(dict(kind="remlen", v=sg[1], off=off, text=sg[2], ctx=ctx))
            elif k == "sub":
                off = walk(sg[2], off, out, ctx + (("buf", sg[1]),))
            else:
                raise AnalysisError("encoder segment %r not understood" % (k,))
        return off

    allitems = []
    walk(flat, Lin(0), allitems, ())
    ri = [i for i, it in enumerate(allitems) if it["kind"] == "remlen"]
    if len(ri) == 1:
        i = ri[0]
        hdr, remlen, body = allitems[:i], allitems[i], allitems[i + 1:]
        base = remlen["off"]
        for it in body:
            it["off"] = Lin(it["off"].c - base.c, it["off"].syms)
    elif not ri and len(allitems) > 2 and allitems[1]["kind"] == "byte" and isinstance(allitems[1]["v"], tuple) and allitems[1]["v"][0] == "const" \
            and isinstance(allitems[1]["v"][1], int) and 0 < allitems[1]["v"][1] < 128 \
            and all(it["kind"] in ("byte", "u16") for it in allitems[2:]):
        # a remaining length written as a constant: right when what follows has a fixed size (a packet identifier) and the constant is it
        hdr, body = allitems[:1], allitems[2:]
        remlen = dict(allitems[1], kind="remlen", v=("constlen", allitems[1]["v"][1], sum(1 if it["kind"] == "byte" else 2 for it in body)))
        base = remlen["off"].add(1)
        for it in body:
            it["off"] = Lin(it["off"].c - base.c, it["off"].syms)
    else:
        hdr, remlen, body = allitems, None, []
    return hdr, remlen, body


def dec_canon(dec):
    """Rename the decoder's length symbols by order of first use so that they compare with the encoder's V1..Vn."""
    used = []
    for r in dec.reads:
        for rr in [r] + list(r.get("body", []) if r["kind"] == "repeat" else []):
            off = rr.get("off")
            if isinstance(off, Lin):
                for s in off.syms:
                    if s.startswith("N") and s not in used:
                        used.append(s)
            up = rr.get("upto")
            if isinstance(up, Lin):
                for s in up.syms:
                    if s.startswith("N") and s not in used:
                        used.append(s)
    # order by the position where the symbol's defining read sits
    defs = {}
    def scan(reads):
        for r in reads:
            if r.get("sym"):
                defs[r["sym"]] = r
            if r["kind"] == "repeat":
                scan(r["body"])
    scan(dec.reads)
    order = sorted(used, key=lambda s: (len(defs[s]["off"].syms), defs[s]["off"].c) if s in defs else (99, 0))
    ren = {s: "V%d" % (i + 1) for i, s in enumerate(order)}
    return ren, defs


def ren_lin(l, ren):
    if not isinstance(l, Lin):
        return l
    return Lin(l.c, tuple(ren.get(s, s) for s in l.syms))


def decoder_field_reads(dec, ren):
    """field -> list of (kind, offset, record) for self.<field> targets, locals followed through binds/appends."""
    out = {}
    for r in dec.reads:
        t = r.get("target")
        if isinstance(t, tuple) and t[0] == "self":
            rec = r
            kind = r["kind"]
            if kind == "bind":
                rec = r["source"]
                kind = rec["kind"]
            out.setdefault(t[1], []).append((kind, ren_lin(rec.get("off"), ren), rec, r))
    return out


def guard_pairs(enc_merged, dec_merged):
    """Pair encoder optional-section guards with decoder guards through the announcing flag bit or the tested field.
    Returns (pairs [(enc guard, dec guard, how)], encoder-only guards, problems)."""
    problems = []
    hdr, remlen, body = enc_items(enc_merged)
    ren, defs = dec_canon(dec_merged)
    # encoder guards that govern optional *sections* (buffer content), and flag announcements
    section_guards = []
    for it in body + hdr:
        for c in it["ctx"]:
            if c[0] == "opt" and c[1] not in section_guards:
                section_guards.append(c[1])
    ann = {}        # guard text -> (offset Lin of the flag byte, mask of constant bits set under that guard)
    for it in hdr + body:
        if it["kind"] == "byte" and isinstance(it["v"], tuple) and it["v"][0] == "bits":
            for d, sh, g in it["v"][2]:
                if g is not None and d[0] == "const":
                    o, m = ann.get(g, (it["off"], 0))
                    ann[g] = (it["off"], m | (d[1] << sh))
    dec_guards = {}
    for g in dec_merged.branch_guards:
        dec_guards[g] = None
    for r in dec_merged.reads:
        for (g, pol, desc) in r["guard"]:
            dec_guards[g] = desc
        if r["kind"] == "repeat":
            for rr in r["body"]:
                for (g, pol, desc) in rr["guard"]:
                    if g != "repeat":
                        dec_guards[g] = desc
    pairs = []
    enc_only = []
    for g in enc_merged.branch_guards:
        if g in ann:
            o, m = ann[g]
            match = None
            for dg, desc in dec_guards.items():
                if desc and desc[0] == "local" and isinstance(desc[1], dict) and desc[1].get("kind") == "bits":
                    if ren_lin(desc[1]["off"], ren) == o and desc[1]["mask"] == m:
                        match = dg
            if match is None and g in section_guards:
                problems.append(Problem("L3", enc_merged.cls.name, "section[%s]" % g,
                                        "the optional section written under `%s` is announced by flag bit(s) 0x%02x, but the decoder reads no "
                                        "section under a test of exactly that bit" % (g, m)))
            if match is not None:
                pairs.append((g, match, "flag 0x%02x" % m))
            continue
        # guard on the truthiness of a field that the decoder tests as well
        match = None
        for dg, desc in dec_guards.items():
            if desc and desc[0] == "self" and g == "self.%s" % desc[1]:
                match = dg
        if match is not None:
            pairs.append((g, match, "field"))
        elif g in section_guards:
            enc_only.append(g)
        else:
            enc_only.append(g)
    return pairs, enc_only, problems


def combos(pairs, enc_only):
    names = [p[0] for p in pairs] + list(enc_only)
    for vals in itertools.product([True, False], repeat=len(names)):
        yield dict(zip(names, vals))


KIND_COMPAT = {"str": {"str", "text"}, "u16": {"u16"}, "byte": {"byte", "bits"}, "raw": {"raw"}, "text": {"raw", "text"}}


def compare_class(prog, cls):
    """All agreement problems of one PDU class. Returns (problems, stats)."""
    problems = []
    encm = EncoderLayout(prog, cls)
    decm = DecoderLayout(prog, cls)
    stats = {"combos": 0, "items": 0}
    # L2: fields
    missing = sorted(f for f in encm.fields_read if f not in decm.fields_assigned())
    for f in missing:
        problems.append(Problem("L2", cls.name, "field[%s]" % f, "encode() reads self.%s but decode() never assigns it" % f))
    pairs, enc_only, pr = guard_pairs(encm, decm)
    problems.extend(pr)
    seen = set()
    for assign in combos(pairs, enc_only):
        e_assume = dict(assign)
        d_assume = {dg: assign[eg] for eg, dg, how in pairs}
        try:
            enc = EncoderLayout(prog, cls, e_assume)
        except AnalysisError:
            raise
        # skip assignments on which the encoder only raises
        if any(all((g in e_assume and e_assume[g]) or (g.startswith("not (") and g[5:-1] in e_assume and not e_assume[g[5:-1]])
                   for g in guard.split(" and ")) for guard, exc, node in enc.raises if guard != "always"):
            continue
        dec = DecoderLayout(prog, cls, d_assume)
        stats["combos"] += 1
        hdr, remlen, body = enc_items(enc)
        ren, defs = dec_canon(dec)
        dfr = decoder_field_reads(dec, ren)
        label = ", ".join("%s=%s" % (k, v) for k, v in assign.items()) or "-"

        def note(rule, what, msg, node=None):
            k = (rule, what)
            if k not in seen:
                seen.add(k)
                problems.append(Problem(rule, cls.name, what, msg + (" [when %s]" % label if assign else ""), node))
        # ---- body items against decoder reads
        for it in body:
            stats["items"] += 1
            if it["kind"] == "repeat":
                _compare_repeat(it, dec, ren, note)
                continue
            f = src_field(it["v"])
            if it["kind"] == "u16" and it.get("prefix_of") is not None:
                # explicit length prefix: L5
                tgt = it["prefix_of"]
                if it["v"] != ("len", ("name", "?")) and not _len_of_same_bytes(it, tgt, enc):
                    note("L5", "prefix[%s]" % (src_field(tgt["v"]) or tgt["text"]),
                         "the 2-byte length prefix is %s but the bytes appended after it are %s: the prefix does not count the bytes that follow" % (
                             it["text"], _describe(tgt)))
                continue
            if it["kind"] == "byte" and isinstance(it["v"], tuple) and it["v"][0] == "bits":
                _compare_bits(it, dec, ren, note, header=False)
                continue
            if f is None:
                continue
            reads = dfr.get(f, [])
            if not reads:
                if f in decm.fields_assigned():
                    note("L3", "unread[%s]" % f, "self.%s is written in this combination of optional sections but the decoder does not read it "
                         "(the flag bit announcing its section selects another section on the decoder side)" % f)
                continue   # otherwise reported by L2
            if isinstance(it["v"], tuple) and it["v"][0] == "item" and all(r[0] == "const" for r in reads):
                # a dict-valued field (protocol version) rebuilt from one of its written components:
                # the decoder must at least read a byte/str at the position of one component
                offs = [x["off"] for x in body if src_field(x.get("v")) == f]
                got = [ren_lin(r.get("off"), ren) for r in dec.reads if r["kind"] in ("byte", "str") and isinstance(r.get("target"), tuple)
                       and r["target"][0] == "local"]
                if not any(o in got for o in offs):
                    note("L3", "kind[%s]" % f, "self.%s is rebuilt from constants without reading any of its written components" % f)
                continue
            ok_kind = [r for r in reads if r[0] in KIND_COMPAT.get(it["kind"], {it["kind"]})]
            if not ok_kind:
                note("L3", "kind[%s]" % f, "self.%s is written as %s but read back as %s" % (f, it["kind"], sorted({r[0] for r in reads})))
                continue
            exp_off = it["off"]
            if it["kind"] == "byte" and it["v"][0] == "field":
                for r in ok_kind:
                    if r[0] == "bits":
                        m = r[2]["mask"]
                        if not (m & 1) or ((m + 1) & m) != 0 or r[2]["shift"] != 0:
                            note("L4", "flag[%s]" % f, "self.%s is written unshifted into its byte but read with mask 0x%02x, shift %d" % (f, m, r[2]["shift"]),
                                 r[2].get("node"))
            if not any(r[1] == exp_off for r in ok_kind):
                cl = [x for x in dec.reads if x["kind"] == "charlen" and any(isinstance(r[1], Lin) and x["sym"] in r[1].syms for r in ok_kind)]
                if cl:
                    note("L5", "offset[%s]" % f, "self.%s is located with len(%s) - a count of decoded characters/items - instead of the byte length read "
                         "from the packet: the two differ as soon as a character needs more than one byte" % (f, cl[0]["of"]), cl[0].get("node"))
                    continue
                note("L3", "offset[%s]" % f, "self.%s is written at body offset %s but read at %s: field order/width disagree" % (
                    f, exp_off, sorted({str(r[1]) for r in ok_kind})))
        # ---- flag bytes in the fixed header
        for it in hdr:
            if it["kind"] == "byte" and isinstance(it["v"], tuple) and it["v"][0] in ("bits", "alt"):
                v = it["v"]
                if v[0] == "alt" and alt_to_bits(v) is not None:
                    it = dict(it, v=alt_to_bits(v))
                    v = it["v"]
                if v[0] == "bits":
                    _compare_bits(it, dec, ren, note, header=True)
        # ---- a decoder that refuses what is too short: not shorter than the shortest body the encoder writes on this combination
        for rj in getattr(dec, "rejects", []):
            # (a refusal that sits under a test of a decoded field - `if not self.qos: ... return` before it - is compared on the encoder
            # combinations that agree with that test only)
            def contradicts(g, pol):
                g = g.strip()
                while g.startswith("not "):
                    g, pol = g[4:].strip(), not pol
                    if g.startswith("(") and g.endswith(")"):
                        g = g[1:-1].strip()
                return g in e_assume and bool(e_assume[g]) != bool(pol)
            if any(contradicts(g, pol) for (g, pol, _d) in rj.get("guard", ())):
                continue

            def minsize(it):
                k = it["kind"]
                return Lin(1) if k == "byte" else Lin(2) if k == "u16" else Lin(2, (it["sym"],)) if k == "str" else Lin(0)
            ends = []
            for it in body:
                if any(str(sy).startswith(("rest", "opt@", "iter")) for sy in it["off"].syms):
                    continue
                ends.append(it["off"].add(minsize(it)))
            if not ends:
                continue
            total = max(ends, key=lambda l: (len(l.syms), l.c))
            T = ren_lin(rj["T"], ren)
            cur = ren_lin(rj["cursor"], ren)
            left = Lin(total.c - cur.c, tuple(sorted(set(total.syms) - set(cur.syms)))) if set(cur.syms) <= set(total.syms) else None
            if left is not None and not T.syms and left.syms:
                # a constant threshold against a body whose length has symbolic parts (string lengths, each >= 0): the shortest such body
                left = Lin(left.c)
            if left is None or tuple(sorted(T.syms)) != tuple(sorted(left.syms)):
                raise AnalysisError("decoder of %s: the length test %s cannot be compared with the encoder's layout" % (cls.name, rj["text"]))
            if T.c >= left.c:
                note("L3", "refuses-valid", "the decoder refuses its input when %s - that is with len <= %s bytes left - but on this combination the "
                     "encoder writes a body with exactly %s bytes there: a well-formed packet (nothing after that field: an empty payload) "
                     "is rejected" % (rj["text"], T, left), rj["node"])
        # ... and the converse, for the first byte: a field the decoder takes from it that the encoder, on this combination of its own
        # guards, does not or into it (retain only written when qos != 0).  Not for the field whose own falsehood is the assumption (qos
        # under `if self.qos`: what is left out is 0) and not for DUP at QoS 0, which the specification fixes at 0 [MQTT-3.3.1-2]
        first = hdr[0] if hdr and hdr[0]["kind"] == "byte" and isinstance(hdr[0]["v"], tuple) else None
        if first is not None and first["v"][0] in ("bits", "const"):
            written = {src_field(d) for d, sh, g in first["v"][2]} if first["v"][0] == "bits" else set()
            for r in dec.reads:
                if r["kind"] != "bits" or not isinstance(r.get("source"), dict) or r["source"].get("kind") != "hdrbyte" or str(r["source"].get("off")) != "0":
                    continue
                tgt = r["target"][1] if r["target"][0] == "self" else next(
                    (x["target"][1] for x in dec.reads if x["kind"] == "bind" and x.get("source") is r and x["target"][0] == "self"), None)
                if tgt is None or tgt in written or tgt not in encm.fields_read:
                    continue
                false_guards = {g.replace("(", "").replace(")", "").strip() for g, val in e_assume.items() if val is False}
                if ("self.%s" % tgt) in false_guards or (tgt == "dup" and "self.qos" in false_guards):
                    continue
                note("L4", "flag[%s].guard" % tgt, "the decoder reads self.%s from the first byte, but on this combination the encoder does not or it in: "
                     "the flag is lost on the way (it decodes as clear whatever it was)" % tgt, r.get("node"))
    return problems, stats, encm, decm


def alt_to_bits(v):
    """('alt', guard, A, B) where one arm's flag byte is the other's with more or-ed in: the common part plus the rest under the guard
    (the negated guard when the richer arm is the else arm).  None when the arms are not related that way."""
    if not (isinstance(v, tuple) and v and v[0] == "alt" and len(v) == 4):
        return None
    g, a, b = v[1], v[2], v[3]

    def norm(x):
        if isinstance(x, tuple) and x and x[0] == "const" and isinstance(x[1], int):
            return ("bits", x[1], ())
        return x if isinstance(x, tuple) and x and x[0] == "bits" else None
    a, b = norm(a), norm(b)
    if a is None or b is None:
        return None
    for rich, poor, gt in ((a, b, g), (b, a, "not (%s)" % g)):
        if tuple(poor[2]) == tuple(rich[2][:len(poor[2])]) and (poor[1] & ~rich[1]) == 0:
            extra = rich[2][len(poor[2]):]
            parts = tuple(poor[2]) + tuple((d, sh, gt if gg is None else "%s and %s" % (gg, gt)) for d, sh, gg in extra)
            cd = rich[1] & ~poor[1]
            if cd:
                parts = parts + ((("const", cd), 0, gt),)
            return ("bits", poor[1], parts)
    return None


def _describe(it):
    if it["kind"] == "text":
        return "bytearray(%s, %r%s)" % (it["text"], it["enc"], ", errors=%r" % it["errors"] if it["errors"] else "")
    return it["text"]


def _len_of_same_bytes(prefix, tgt, enc):
    """Is the prefix len() of the very byte sequence that follows?"""
    inner = prefix["v"][1]
    # len(local buffer) where exactly that buffer is what is appended
    if inner[0] == "bufref":
        return ("buf", inner[1]) in tgt["ctx"]
    if tgt["kind"] == "raw":
        return inner == tgt["v"]
    # text: len(self.f) counts characters, the appended bytes are an encoding of it
    return False


def _compare_bits(it, dec, ren, note, header):
    """L4: every field or-ed into a flag byte at shift s is extracted with a contiguous mask starting at s."""
    off = it["off"]
    recs = []
    for r in dec.reads:
        if r["kind"] == "bits" and r.get("source") is not None:
            src = r["source"]
            if header and src["kind"] == "hdrbyte" and str(src["off"]) == str(off):
                recs.append(r)
            elif not header and src["kind"] == "byte" and ren_lin(src["off"], ren) == off:
                recs.append(r)
    binds = {}
    for r in dec.reads:
        if r["kind"] == "bind" and isinstance(r["source"], dict) and r["source"].get("kind") == "bits":
            binds[id(r["source"])] = r["target"][1]
    used = 0
    for d, sh, g in it["v"][2]:
        f = src_field(d)
        if f is None:
            continue
        cand = [r for r in recs if (r["target"] == ("self", f)) or binds.get(id(r)) == f]
        if g is not None and cand:
            # a field or-ed in only under a condition, read back whatever the condition was: when the condition fails the field's value is
            # not on the wire and the decoder makes up another one.  Fine when the condition is the field's own truth (qos under `if self.qos`:
            # what is left out is 0), and for the one pair the specification forces (DUP is 0 at QoS 0, [MQTT-3.3.1-2])
            rd = cand[0]
            sink = [x for x in dec.reads if x["kind"] == "bind" and x.get("source") is rd and x["target"] == ("self", f)]
            uncond = (rd["target"] == ("self", f) and not rd.get("guard")) or any(not x.get("guard") for x in sink)
            own = g.replace("(", "").replace(")", "").strip() in ("self.%s" % f, "self.%s != 0" % f, "self.%s > 0" % f, "self.%s == True" % f)
            forced = (it.get("cls"), f) in (("PUBLISH", "dup"),) or (header and f == "dup" and "self.qos" in g)
            if uncond and not own and not forced:
                note("L4", "flag[%s].guard" % f, "self.%s is or-ed into the flag byte only when %s, but the decoder reads it from that byte unconditionally: "
                     "with the condition false the flag is not written and decodes as clear" % (f, g), r.get("node") if (r := rd) else None)
        if not cand:
            if not recs:
                continue
            note("L4", "flag[%s]" % f, "self.%s is or-ed into the flag byte at bit %d but the decoder extracts no such field from that byte" % (f, sh))
            continue
        r = cand[0]
        m = r["mask"]
        w = (m >> sh)
        contiguous = m != 0 and (m & ((1 << sh) - 1)) == 0 and (w & (w + 1)) == 0
        value_shift_ok = r["shift"] == sh or r["cmp"] is not None
        cmp_ok = True
        if r["cmp"] is not None:
            c = r["cmp"][1]
            # a comparison decides the flag only against nothing (0), against every bit of the mask, or against a truth value
            cmp_ok = isinstance(c, bool) or (isinstance(c, int) and c in (0, m >> r["shift"] if r["shift"] else m))
        if not contiguous or not value_shift_ok or not cmp_ok:
            note("L4", "flag[%s]" % f, "self.%s is written at bit %d (shift %d) but read with mask 0x%02x, shift %d%s" % (
                f, sh, sh, m, r["shift"], ", compared with %r" % (r["cmp"][1],) if r["cmp"] else ""), r.get("node"))
        foreign = []
        for d2, sh2, g2 in it["v"][2]:
            if not isinstance(sh2, int) or (sh2 == sh and src_field(d2) == f):
                continue
            bits2 = (d2[1] << sh2) if isinstance(d2, tuple) and d2[0] == "const" and isinstance(d2[1], int) else (1 << sh2)
            foreign += [b for b in range(8) if (bits2 >> b) & 1 and (m >> b) & 1]
        foreign += [b for b in range(8) if isinstance(it["v"][1], int) and (it["v"][1] >> b) & 1 and (m >> b) & 1]
        if used & m:
            note("L4", "flag-overlap[%s]" % f, "mask 0x%02x of self.%s overlaps another field of the same byte" % (m, f))
        elif foreign:
            note("L4", "flag-overlap[%s]" % f, "mask 0x%02x of self.%s includes bit %s, where the encoder writes something else" % (
                m, f, ", ".join(str(x) for x in sorted(set(foreign)))), r.get("node"))
        used |= m


def _compare_repeat(it, dec, ren, note):
    f = it["field"]
    rd = [r for r in dec.reads if r["kind"] in ("repeat", "bytelist")]
    items = it["items"]
    if not rd:
        note("L3", "repeat[%s]" % f, "self.%s is written as a repeated section but the decoder has no loop over the rest of the packet" % f)
        return
    r = rd[0]
    if r["kind"] == "bytelist":
        if not (len(items) == 1 and items[0]["kind"] == "byte"):
            note("L3", "repeat[%s]" % f, "self.%s entries are written as %s but read one byte each" % (f, [i["kind"] for i in items]))
            return
        v = items[0]["v"]
        if isinstance(v, tuple) and v[0] == "bits":
            # element parts: (item k, shift) and conditional constant bits
            for d, sh, g in v[2]:
                if d[0] == "ifexp" and d[2][0] == "const" and d[3] == ("const", 0):
                    bit = d[2][1] << sh
                    if not any(x["mask"] == bit for x in r["items"]):
                        note("L4", "flag[%s.bit]" % f, "entries of self.%s set bit 0x%02x but the decoder tests %s" % (
                            f, bit, ["0x%02x" % x["mask"] for x in r["items"]]))
                    for x in r["items"]:
                        if x["mask"] != bit and x["mask"] & bit:
                            note("L4", "flag[%s.value]" % f, "value mask 0x%02x of self.%s entries includes the flag bit 0x%02x" % (x["mask"], f, bit))
        return
    # explicit loop
    body = r["body"]
    app = [x for x in body if x["kind"] == "append"]
    if not app or app[0]["target"] != f:
        note("L3", "repeat[%s]" % f, "the decoder loop does not rebuild self.%s" % f)
        return
    parts = app[0]["item"] if isinstance(app[0]["item"], tuple) else (app[0]["item"],)
    if len(parts) != len(items):
        note("L3", "repeat[%s]" % f, "each entry of self.%s is written as %d item(s) but rebuilt from %d" % (f, len(items), len(parts)))
        return
    for k, (ei, dp) in enumerate(zip(items, parts)):
        dk = dp.get("kind")
        ok = (ei["kind"] == "str" and dk in ("str", "text")) or (ei["kind"] == "byte" and dk in ("byte", "bits")) or ei["kind"] == dk
        if not ok:
            note("L3", "repeat[%s][%d]" % (f, k), "entry item %d of self.%s is written as %s but read as %s" % (k, f, ei["kind"], dk))
            continue
        eoff = ei["off"]
        doff = ren_lin(dp.get("off"), ren)
        if dk == "text":
            # explicit prefix form: text starts 2 after the prefix
            doff = Lin(doff.c - 2, doff.syms)
        if isinstance(doff, Lin) and (doff.c, len(doff.syms)) != (eoff.c, len(eoff.syms)):
            note("L3", "repeat[%s][%d]" % (f, k), "entry item %d of self.%s is written at %s and read at %s within the entry" % (k, f, eoff, doff))
        # item index identity: k-th tuple element
        v = ei["v"]
        if isinstance(v, tuple) and v[0] == "item" and v[2] != k:
            note("L3", "repeat[%s][%d]" % (f, k), "entry element %s of self.%s is written in position %d" % (v[2], f, k))
    # the cursor advances by what one entry occupies
    adv = ren_lin(r["advance"], ren)
    total = Lin(0, ("iter",))
    for ei in items:
        if ei["kind"] == "str":
            total = total.add(Lin(2, ("x",)))
        elif ei["kind"] == "byte":
            total = total.add(1)
        elif ei["kind"] == "u16":
            total = total.add(2)
    if r.get("leftover", 0) >= max(total.c, 1):
        note("L3", "repeat[%s].stop" % f, "the decoder loop stops while up to %d byte(s) of the packet remain, but one entry of self.%s can be as "
             "short as %d byte(s): the last entries of a valid packet are dropped" % (r["leftover"], f, total.c))
    if adv.c != total.c:
        note("L3", "repeat[%s].advance" % f, "one entry of self.%s occupies %d fixed byte(s) plus its strings, the decoder advances by %d" % (f, total.c, adv.c))
