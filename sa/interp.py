"""A2-A4: path-sensitive abstract walk of the client code.

For one concrete protocol class, enumerates the abstract paths of an entry function:
statements are reduced to events (terms.Ev), calls into repository code are inlined,
aliases are tracked as access paths (copy propagation), loops become LOOP regions,
`try` gets exceptional edges for explicit raises, registry misses, codec faults and
unbound names.  No value is computed except folded constants; nothing is executed.
"""
import ast

from .model import AnalysisError, ClassInfo, FuncInfo, BUILTIN_EXC, NotConst
from .terms import SELF, FAC, TRANSPORT, NONE, Ev, Cond, Path, const, is_const, mentions, show

MAX_PATHS = 60000
PDU_MODULE = "mqtt.pdu"
BUILTINS_PURE = {"len", "min", "max", "int", "str", "bytes", "bytearray", "list", "tuple", "dict", "set",
                 "isinstance", "type", "range", "bool", "float", "repr", "abs", "sorted", "reversed",
                 "enumerate", "zip", "sum", "any", "all", "hex", "ord", "chr", "divmod", "iter", "next",
                 "frozenset", "round", "id", "hash", "callable", "issubclass", "format", "print", "object"}
BUILTIN_CONSTS = {"True": True, "False": False, "None": None}
DEQUE_DICT_METHODS = {"append", "appendleft", "popleft", "pop", "clear", "items", "values", "keys", "get",
                      "insert", "remove", "extend", "extendleft", "rotate", "popitem", "setdefault", "update",
                      "reverse", "copy", "count", "index"}


class St:
    __slots__ = ("env", "heap", "events", "conds", "facts", "stack", "hits", "counter", "frames", "gen_callers", "consumer_exit")

    def __init__(self):
        self.env = {}
        self.heap = {}
        self.events = []
        self.conds = ()
        self.facts = {}
        self.stack = ()
        self.hits = set()
        self.counter = [0]      # shared across forks: unique ids
        self.frames = ()        # quals of functions being inlined (recursion guard)
        self.gen_callers = ()   # (env, stack, frames) of the loops consuming the generators being run
        self.consumer_exit = None

    def fork(self):
        s = St.__new__(St)
        s.env = dict(self.env)
        s.heap = dict(self.heap)
        s.events = list(self.events)
        s.conds = self.conds
        s.facts = dict(self.facts)
        s.stack = self.stack
        s.hits = set(self.hits)
        s.counter = self.counter
        s.frames = self.frames
        s.gen_callers = self.gen_callers
        s.consumer_exit = self.consumer_exit
        return s

    def uid(self):
        self.counter[0] += 1
        return self.counter[0]


class Fx:
    """Per-frame context."""
    __slots__ = ("func", "module", "cls", "selfterm", "outer_env", "on_yield")

    def __init__(self, func, selfterm, outer_env=None):
        self.on_yield = None
        self.func = func
        self.module = func.module
        self.cls = func.cls if func.cls else (func.parent.cls if func.parent else None)
        self.selfterm = selfterm
        self.outer_env = outer_env


class Interp:
    def __init__(self, prog, proto_cls, inline_depth=8):
        self.prog = prog
        self.proto = proto_cls            # ClassInfo of the concrete protocol class
        self.inline_depth = inline_depth
        self.npaths = 0
        fac = [c for c in prog.classes.values() if c.name == "MQTTFactory"]
        if len(fac) != 1:
            raise AnalysisError("anchor vanished: class MQTTFactory")
        self.factory = fac[0]
        self.registries = self._discover_registries()
        self.elem_key_field = "msgId"
        self.init_heap = {}
        self.state_slots = {}             # slot -> ClassInfo
        self.state_values = set()
        self.mutable_fields = self._mutable_self_fields()
        self.instance_fields = self._instance_fields()
        self._encode_raises = {}

    # ------------------------------------------------------------------
    def _discover_registries(self):
        """Factory attributes initialised to an empty dict in __init__ and filled per address in buildProtocol."""
        init = self.factory.methods.get("__init__")
        bp = self.factory.methods.get("buildProtocol")
        if not init or not bp:
            raise AnalysisError("anchor vanished: MQTTFactory.__init__/buildProtocol")
        cands = []
        for n in ast.walk(init.node):
            if isinstance(n, ast.Assign) and len(n.targets) == 1 and isinstance(n.targets[0], ast.Attribute) \
                    and isinstance(n.targets[0].value, ast.Name) and n.targets[0].value.id == "self":
                v = n.value
                if (isinstance(v, ast.Dict) and not v.keys) or (isinstance(v, ast.Call) and isinstance(v.func, ast.Name)
                                                                  and v.func.id == "dict" and not v.args):
                    cands.append(n.targets[0].attr)
        # ... and mentioned in buildProtocol or in the factory methods it calls (how they are filled is C19's business:
        # directly, through setdefault, through a table of registries that a loop walks)
        filled = set()
        todo, seen = [bp], set()
        while todo:
            fn = todo.pop()
            if fn.qual in seen:
                continue
            seen.add(fn.qual)
            for n in ast.walk(fn.node):
                if isinstance(n, ast.Attribute) and isinstance(n.value, ast.Name) and n.value.id == "self":
                    filled.add(n.attr)
                    m = self.factory.methods.get(n.attr)
                    if m is not None:
                        todo.append(m)
        # ... or named by a string constant there or in a class-level table those functions mention (rows of names for getattr)
        tables = [self.factory.attrs[a] for a in sorted(filled) if a in self.factory.attrs]
        scanned = [self.prog.funcs[q].node for q in seen if q in self.prog.funcs] + tables
        for node in scanned:
            for n in ast.walk(node):
                if isinstance(n, ast.Constant) and isinstance(n.value, str) and n.value in cands:
                    filled.add(n.value)
        regs = [c for c in cands if c in filled]
        # which of them hold a sequence of requests per address (a deque) rather than a dict keyed by identifier: the registry is
        # mentioned together with `deque` in one statement / one row of a table of buildProtocol (or of what it calls)
        self.seq_registries = set()
        for q in seen:
            fn = self.prog.funcs.get(q)
            if fn is None:
                continue
            rows = [n for n in ast.walk(fn.node) if isinstance(n, (ast.Tuple, ast.Assign, ast.Expr))]
            if fn.qual == bp.qual:
                for tb in tables:
                    rows += [n for n in ast.walk(tb) if isinstance(n, (ast.Tuple, ast.Call))]
            for n in rows:
                names = {x.attr for x in ast.walk(n) if isinstance(x, ast.Attribute) and isinstance(x.value, ast.Name) and x.value.id == "self" and x.attr in regs}
                names |= {x.value for x in ast.walk(n) if isinstance(x, ast.Constant) and isinstance(x.value, str) and x.value in regs}
                has_deque = any(isinstance(x, ast.Name) and x.id == "deque" for x in ast.walk(n))
                if has_deque and len(names) == 1:
                    self.seq_registries |= names
        return regs

    def _mutable_self_fields(self):
        """Fields of the protocol assigned outside the constructor chain (anywhere in the program)."""
        out = set()
        # constructor helpers: methods whose every mention (self.m, Class.m) sits in an __init__ or in another such helper - they
        # run as part of the constructor chain and nowhere else
        helpers = self.prog.constructor_helpers()
        self.constructor_helpers = helpers
        for f in self.prog.funcs.values():
            if f.name == "__init__" or (f.cls is not None and f.parent is None and f.name in helpers):
                continue
            for n in ast.walk(f.node):
                tgts = []
                if isinstance(n, ast.Assign):
                    tgts = n.targets
                elif isinstance(n, (ast.AugAssign, ast.AnnAssign)):
                    tgts = [n.target]
                for t in tgts:
                    for tt in (t.elts if isinstance(t, (ast.Tuple, ast.List)) else [t]):
                        if isinstance(tt, ast.Attribute):
                            b = tt.value
                            if isinstance(b, ast.Name) and b.id == "self":
                                out.add(tt.attr)
                            elif isinstance(b, ast.Attribute) and isinstance(b.value, ast.Name) and b.value.id == "self" \
                                    and b.attr == "protocol":
                                out.add(tt.attr)
        return out

    def _instance_fields(self):
        out = set()
        for c in self.prog.mro(self.proto):
            if not isinstance(c, ClassInfo):
                continue
            for f in c.methods.values():
                for n in ast.walk(f.node):
                    if isinstance(n, ast.Attribute) and isinstance(n.ctx, ast.Store) and isinstance(n.value, ast.Name) \
                            and n.value.id == "self":
                        out.add(n.attr)
        return out

    # ------------------------------------------------------------------
    def build_init(self):
        """Abstractly run the constructor chain of the protocol class: state table and stable fields."""
        init = self.prog.lookup_method(self.proto, "__init__")
        if init is None:
            raise AnalysisError("anchor vanished: %s.__init__" % self.proto.qual)
        st = St()
        binds = {"self": SELF}
        for p in init.params[1:]:
            binds[p] = FAC if p == "factory" else ("attr", SELF, p) if p == "addr" else ("param", p)
        paths = list(self.run(init, binds, st, SELF))
        if len(paths) != 1:
            raise AnalysisError("constructor chain of %s has %d paths (expected 1)" % (self.proto.qual, len(paths)))
        p = paths[0]
        heap = p.st.heap
        self.full_init_heap = dict(heap)
        self.init_events = p.events
        slots = {}
        for (obj, field), val in heap.items():
            if obj == SELF and isinstance(val, tuple) and val[0] == "new" and val[1] in self.prog.classes:
                c = self.prog.classes[val[1]]
                if any(isinstance(k, ClassInfo) and k.name == "BaseState" for k in self.prog.mro(c)):
                    if field != "state":
                        slots[field] = c
        if not slots:
            # no state object found in the constructor chain: every trigger context would come out empty and the rules would judge nothing
            raise AnalysisError("anchor vanished: the constructor chain of %s stores no state object (subclass of BaseState)" % self.proto.qual)
        self.state_slots = slots
        # stable part of the heap: single-assignment fields
        stable = {}
        for (obj, field), val in heap.items():
            if obj == SELF and field in self.mutable_fields:
                continue
            if obj == SELF and field in ("factory",):
                stable[(obj, field)] = FAC
                continue
            if obj == SELF and field == "addr":
                stable[(obj, field)] = ("attr", SELF, "addr")
                continue
            if obj == SELF:
                if isinstance(val, tuple) and val[0] == "new":
                    stable[(obj, field)] = val
                elif is_const(val) and val[1] is not None and field not in self.mutable_fields:
                    stable[(obj, field)] = val
                continue
            # fields of objects created in the constructor (state objects' .protocol, _pingReq.pdu ...)
            if isinstance(obj, tuple) and obj[0] == "new":
                owner_cls = self.prog.classes.get(obj[1])
                if field == "protocol" or (field not in self.prog.field_roles()["mutable"]) or not self._assigned_via_holder(obj, field, heap):
                    if field in ("encoded",):
                        continue
                    stable[(obj, field)] = val
        self.init_heap = stable
        # values self.state can take
        vals = set()

        def value_attrs(v, fnode, depth=0):
            """Attribute names an expression may denote: x.A, a conditional expression over such, or a local assigned from such."""
            if isinstance(v, ast.Attribute):
                return {v.attr}
            if isinstance(v, ast.IfExp):
                return value_attrs(v.body, fnode, depth) | value_attrs(v.orelse, fnode, depth)
            if isinstance(v, ast.Name) and depth < 3:
                out = set()
                for m in ast.walk(fnode):
                    if isinstance(m, ast.Assign) and any(isinstance(t, ast.Name) and t.id == v.id for t in m.targets):
                        out |= value_attrs(m.value, fnode, depth + 1)
                return out
            return set()
        setters = {}        # function name -> index of the parameter it stores into .state (a state-transition helper)
        for f in self.prog.funcs.values():
            for n in ast.walk(f.node):
                if isinstance(n, ast.Assign):
                    for t in n.targets:
                        if isinstance(t, ast.Attribute) and t.attr == "state":
                            vals |= value_attrs(n.value, f.node)
                            if isinstance(n.value, ast.Name) and n.value.id in f.params:
                                setters[f.name] = f.params.index(n.value.id) - (1 if f.params and f.params[0] == "self" else 0)
        if setters:
            for f in self.prog.funcs.values():
                for n in ast.walk(f.node):
                    if isinstance(n, ast.Call):
                        nm = n.func.attr if isinstance(n.func, ast.Attribute) else (n.func.id if isinstance(n.func, ast.Name) else None)
                        if nm in setters:
                            i = setters[nm]
                            if 0 <= i < len(n.args):
                                vals |= value_attrs(n.args[i], f.node)
                            for kw in n.keywords:
                                vals |= value_attrs(kw.value, f.node)
        self.state_values = vals
        return p

    # ------------------------------------------------------------------
    def entry_paths(self, func, binds=None, selfterm=SELF, pre=None):
        """Enumerate the abstract paths of `func` as an entry point, starting from the stable heap."""
        st = St()
        st.heap = dict(self.init_heap)
        b = {}
        if func.cls is not None or (func.parent is None and func.params and func.params[0] == "self"):
            b["self"] = selfterm
        for p in func.params:
            if p == "self":
                continue
            b[p] = ("param", p)
        if binds:
            b.update(binds)
        if pre:
            pre(st)
        self.npaths = 0
        return list(self.run(func, b, st, selfterm))

    def run(self, func, binds, st, selfterm, outer_env=None):
        """Run a function body as a frame; yields Path objects (events are the whole path's events)."""
        fx = Fx(func, selfterm, outer_env)
        saved_env = st.env
        st.env = dict(binds)
        for name, dflt in func.defaults.items():
            if name not in st.env:
                ok, v = self.prog.try_fold(dflt, func.module)
                st.env[name] = const(v) if ok else ("unk", "default:" + name)
        for exit_, s in self.block(func.node.body, st, fx):
            self.npaths += 1
            if self.npaths > MAX_PATHS:
                raise AnalysisError("path explosion in %s" % func.qual)
            yield Path(s.events, exit_, s.conds, s)

    # ------------------------------------------------------------------
    def emit(self, st, fx, kind, node, **a):
        if kind == "REG" and a.get("val") == NONE:
            raise AnalysisError("None stored into registry %s at %s:%d (entries are assumed to be request objects)" % (
                a.get("reg"), fx.func.file, getattr(node, "lineno", 0)))
        e = Ev(kind, a, fx.func.file, getattr(node, "lineno", 0), fx.func.qual, st.stack, st.conds, node)
        e.seq = len(st.events)
        st.events.append(e)
        return e

    def class_of(self, t):
        """ClassInfo of the object a term denotes, when statically known."""
        if t == SELF:
            return self.proto
        if t == FAC:
            return self.factory
        if isinstance(t, tuple) and t and t[0] == "new":
            return self.prog.classes.get(t[1])
        return None

    # ---- statements ----------------------------------------------------
    def block(self, stmts, st, fx):
        if not stmts:
            yield None, st
            return
        head, rest = stmts[0], stmts[1:]
        for exit_, s in self.stmt(head, st, fx):
            if exit_ is not None:
                yield exit_, s
            else:
                yield from self.block(rest, s, fx)

    def stmt(self, n, st, fx):
        m = getattr(self, "s_" + type(n).__name__, None)
        if m is None:
            raise AnalysisError("unsupported statement %s at %s:%d" % (type(n).__name__, fx.func.file, n.lineno))
        yield from m(n, st, fx)

    def s_Pass(self, n, st, fx):
        yield None, st

    def s_Break(self, n, st, fx):
        yield ("break",), st

    def s_Continue(self, n, st, fx):
        yield ("continue",), st

    def s_Global(self, n, st, fx):
        yield None, st

    def s_Nonlocal(self, n, st, fx):
        yield None, st

    def s_ClassDef(self, n, st, fx):
        st.env[n.name] = ("unk", "localclass:" + n.name)
        yield None, st

    def s_Expr(self, n, st, fx):
        if isinstance(n.value, ast.Constant):
            yield None, st
            return
        if isinstance(n.value, ast.Yield) and fx.on_yield is not None:
            # a generator being consumed by a for statement: the loop body runs here, with the yielded value
            if n.value.value is None:
                yield from fx.on_yield(NONE, st)
                return
            for r, t, s in self.ev(n.value.value, st, fx):
                if r == "raise":
                    yield ("raise", t), s
                else:
                    yield from fx.on_yield(t, s)
            return
        for r, t, s in self.ev(n.value, st, fx):
            if r == "raise":
                yield ("raise", t), s
            else:
                yield None, s

    def s_Return(self, n, st, fx):
        if n.value is None:
            yield ("return", NONE), st
            return
        for r, t, s in self.ev(n.value, st, fx):
            if r == "raise":
                yield ("raise", t), s
            else:
                yield ("return", t), s

    def s_Raise(self, n, st, fx):
        if n.exc is None:
            yield ("raise", ("exc", "Exception", (), "reraise")), st
            return
        if isinstance(n.exc, ast.IfExp) and n.cause is None:
            # raise (A if c else B)  ==  if c: raise A  else: raise B
            alt = ast.If(test=n.exc.test, body=[ast.copy_location(ast.Raise(exc=n.exc.body, cause=None), n)],
                         orelse=[ast.copy_location(ast.Raise(exc=n.exc.orelse, cause=None), n)])
            yield from self.block([ast.fix_missing_locations(ast.copy_location(alt, n))], st, fx)
            return
        for r, t, s in self.ev(n.exc, st, fx):
            if r == "raise":
                yield ("raise", t), s
                continue
            if isinstance(t, tuple) and t[0] == "cls":
                t = ("exc", t[1].qual, (), s.uid())
            elif isinstance(t, tuple) and t[0] == "builtin" and t[1] in BUILTIN_EXC:
                t = ("exc", t[1], (), s.uid())
            self.emit(s, fx, "RAISE", n, exc=t)
            yield ("raise", t), s

    def s_FunctionDef(self, n, st, fx):
        fi = FuncInfo(n, fx.module, cls=None, parent=fx.func)
        # one identity per creation: what the closure captured is what the enclosing frame held on this very path
        self._closure_seq = getattr(self, "_closure_seq", 0) + 1
        cid = (id(n), st.uid(), self._closure_seq)        # (unique over all the runs of this engine: state uids restart with every run)
        st.env[n.name] = ("closure", fi, cid)
        self._closure_env = getattr(self, "_closure_env", {})
        self._closure_env[cid] = (dict(st.env), fx.selfterm, fi)
        yield None, st

    def s_Import(self, n, st, fx):
        for al in n.names:
            nm = (al.asname or al.name).split(".")[0]
            st.env[nm] = ("module", self.prog.modules[al.name]) if al.name in self.prog.modules else ("ext", al.name)
        yield None, st

    def s_ImportFrom(self, n, st, fx):
        src = fx.module._abs(n.level, n.module)
        for al in n.names:
            nm = al.asname or al.name
            if src + "." + al.name in self.prog.modules:
                st.env[nm] = ("module", self.prog.modules[src + "." + al.name])      # from package import submodule
            elif src in self.prog.modules:
                r = self.prog.resolve(self.prog.modules[src], al.name)
                st.env[nm] = self._resolved_to_term(r, al.name)
            else:
                st.env[nm] = ("ext", src + "." + al.name)
        yield None, st

    def s_Delete(self, n, st, fx):
        def go(targets, s):
            if not targets:
                yield None, s
                return
            t = targets[0]
            if isinstance(t, ast.Subscript) and isinstance(t.slice, ast.Slice) and t.slice.lower is None and t.slice.upper is not None \
                    and t.slice.step is None and isinstance(t.value, (ast.Attribute, ast.Name)):
                # del buf[:n]  ==  buf = buf[n:]  (dropping a prefix in place; no other name holds the buffer across the statement)
                import copy as _copy
                tgt = _copy.deepcopy(t.value)
                for x_ in ast.walk(tgt):
                    if hasattr(x_, "ctx"):
                        x_.ctx = ast.Load()
                tgt.ctx = ast.Store()
                alt = ast.Assign(targets=[tgt], value=ast.Subscript(value=t.value, slice=ast.Slice(lower=t.slice.upper, upper=None, step=None), ctx=ast.Load()),
                                 lineno=n.lineno)
                ast.copy_location(alt, n)
                ast.fix_missing_locations(alt)
                for ex, s1 in self.stmt(alt, s, fx):
                    if ex is not None:
                        yield ex, s1
                    else:
                        yield from go(targets[1:], s1)
                return
            if isinstance(t, ast.Subscript):
                for r, base, s1 in self.ev(t.value, s, fx):
                    if r == "raise":
                        yield ("raise", base), s1
                        continue
                    for r2, key, s2 in self.ev(t.slice, s1, fx):
                        if r2 == "raise":
                            yield ("raise", key), s2
                            continue
                        if isinstance(base, tuple) and base[0] == "reg":
                            if ("gone", base[1], key) in s2.hits:
                                # deleted earlier on this very path and not stored again: a certain KeyError
                                self.emit(s2, fx, "LOOKUP", t, reg=base[1], key=key, addr=base[2], hit=False, how="del")
                                yield ("raise", ("exc", "KeyError", (key,), s2.uid())), s2
                                continue
                            known = (base[1], key) in s2.hits or (isinstance(key, tuple) and key[0] == "keyof")
                            if not known:
                                s3 = s2.fork()
                                self.emit(s3, fx, "LOOKUP", t, reg=base[1], key=key, addr=base[2], hit=False, how="del")
                                yield ("raise", ("exc", "KeyError", (key,), s3.uid())), s3
                            self.emit(s2, fx, "UNREG", t, reg=base[1], key=key, addr=base[2], how="del")
                            s2.hits.discard((base[1], key))
                            s2.hits.add(("gone", base[1], key))
                            self._drop_reg_facts(s2, base[1])
                        elif isinstance(base, tuple) and base[0] == "regtop":
                            self.emit(s2, fx, "UNREGTOP", t, reg=base[1], key=key)
                        else:
                            self.emit(s2, fx, "DELITEM", t, base=base, key=key)
                        yield from go(targets[1:], s2)
            elif isinstance(t, ast.Name):
                s.env.pop(t.id, None)
                yield from go(targets[1:], s)
            else:
                yield from go(targets[1:], s)
        yield from go(n.targets, st)

    def _assigned_via_holder(self, obj, field, heap):
        """The field NAME is assigned somewhere outside the constructors; is it assigned on THIS constructor-made object?  The object is
        reached through the protocol attribute(s) that hold it (self._pingReq): an assignment `X.field = ..` can touch it only if X is
        rooted there - an attribute chain through the holder, a local bound from one, or a parameter some call site fills with one.
        True (= treat as mutable) when such an assignment exists or the object has no single holder to reason with."""
        holders = {f for (o, f), v in heap.items() if o == SELF and v == obj}
        if len(holders) != 1:
            return True
        h = next(iter(holders))

        def mentions_holder(e):
            return any(isinstance(y, ast.Attribute) and y.attr == h for y in ast.walk(e))

        def rooted(x, fn, depth=0):
            if mentions_holder(x):
                return True
            if isinstance(x, ast.Name) and depth < 3:
                for m in ast.walk(fn.node):
                    if isinstance(m, ast.Assign) and any(isinstance(t, ast.Name) and t.id == x.id for t in m.targets) and rooted(m.value, fn, depth + 1):
                        return True
                if x.id in fn.params and x.id != "self":
                    idx = fn.params.index(x.id) - (1 if fn.params[:1] == ["self"] else 0)
                    for g in self.prog.funcs.values():
                        for c in ast.walk(g.node):
                            if isinstance(c, ast.Call) and ((isinstance(c.func, ast.Attribute) and c.func.attr == fn.name)
                                                            or (isinstance(c.func, ast.Name) and c.func.id == fn.name)):
                                arg = c.args[idx] if 0 <= idx < len(c.args) else next((k.value for k in c.keywords if k.arg == x.id), None)
                                if arg is not None and (mentions_holder(arg) or any(isinstance(a_, ast.Starred) for a_ in c.args)):
                                    return True
            return False
        ctor = self.prog.constructor_helpers()
        ocls = self.prog.classes.get(obj[1]) if isinstance(obj, tuple) and len(obj) > 1 else None
        own = {c.qual for c in self.prog.mro(ocls) if isinstance(c, ClassInfo)} if ocls is not None else set()
        for fn in self.prog.funcs.values():
            if fn.name == "__init__" or (fn.cls is not None and fn.parent is None and fn.name in ctor):
                continue
            for n in ast.walk(fn.node):
                tgts = n.targets if isinstance(n, ast.Assign) else ([n.target] if isinstance(n, (ast.AugAssign, ast.AnnAssign)) else [])
                for t in tgts:
                    for tt in (t.elts if isinstance(t, (ast.Tuple, ast.List)) else [t]):
                        if isinstance(tt, ast.Attribute) and tt.attr == field and rooted(tt.value, fn):
                            return True
                        # a method of the object's own class that stores the field through `self` (decode() filling the PDU it is called on)
                        if isinstance(tt, ast.Attribute) and tt.attr == field and isinstance(tt.value, ast.Name) and tt.value.id == "self" \
                                and fn.cls is not None and fn.cls.qual in own:
                            return True
                if isinstance(n, ast.Call) and isinstance(n.func, ast.Name) and n.func.id == "setattr" and n.args and rooted(n.args[0], fn):
                    return True
        return False

    def _drop_reg_facts(self, st, reg):
        for k in [k for k in st.facts if mentions(k, ("regtop", reg)) or any(
                isinstance(x, tuple) and x[:2] == ("reg", reg) for x in _sub(k))]:
            del st.facts[k]


def _sub(t):
    from .terms import subterms
    return subterms(t)
