"""Expression rules: names, attributes, subscripts, comparisons, branch conditions."""
import ast

from .model import AnalysisError, ClassInfo, FuncInfo, BUILTIN_EXC, NotConst, fold_binop
from .terms import SELF, FAC, TRANSPORT, NONE, Cond, const, is_const, mentions, show, subterms
from .interp import BUILTINS_PURE, BUILTIN_CONSTS, PDU_MODULE

CMP = {ast.Eq: "==", ast.NotEq: "!=", ast.Lt: "<", ast.LtE: "<=", ast.Gt: ">", ast.GtE: ">=",
       ast.Is: "is", ast.IsNot: "is not", ast.In: "in", ast.NotIn: "not in"}
FLIP = {"<": ">", "<=": ">=", ">": "<", ">=": "<=", "==": "==", "!=": "!="}
NEG = {"<": ">=", "<=": ">", ">": "<=", ">=": "<", "==": "!=", "!=": "==", "is": "is not", "is not": "is",
       "in": "not in", "not in": "in"}


def _upper_bounded(conds, key, size):
    """Do the path conditions bound `key` below `size` (key < c with c <= size, key <= c with c < size, key == c in range)?"""
    for c in conds:
        t, pol = c.term, c.pol
        while isinstance(t, tuple) and t and t[0] == "not":
            t, pol = t[1], not pol
        if isinstance(t, tuple) and t[0] == "cmp" and t[2] == key and is_const(t[3]) and isinstance(t[3][1], int):
            op, cst = t[1], t[3][1]
            if not pol:
                op = {"<": ">=", "<=": ">", ">": "<=", ">=": "<", "==": "!=", "!=": "=="}.get(op, op)
            if (op == "<" and cst <= size) or (op == "<=" and cst < size) or (op == "==" and 0 <= cst < size):
                return True
    return False


_FLIPOP = {"<": ">", ">": "<", "<=": ">=", ">=": "<="}
_NEGOP2 = {"<": ">=", "<=": ">", ">": "<=", ">=": "<", "==": "!=", "!=": "=="}


def _index_guarded(conds, base, key):
    """Do the path conditions establish 0 <= key < len(base)?  (key a non-negative constant: a lower bound on len(base) above it,
    or base/len(base) tested truthy for index 0; key a term: key < len(base) in either orientation.)"""
    ln = ("call", ("builtin", "len"), (base,))
    if isinstance(key, tuple) and key[:1] == ("iterof",) and isinstance(key[1], tuple) and key[1][:2] == ("call", ("builtin", "range")) \
            and 1 <= len(key[1][2]) <= 2 and key[1][2][-1] == ln:
        lo = key[1][2][0] if len(key[1][2]) == 2 else ("const", 0)
        if is_const(lo) and isinstance(lo[1], int) and lo[1] >= 0:
            return True       # an element of range([a,] len(base)) drawn by a comprehension
    for c in conds:
        t, pol = c.term, c.pol
        while isinstance(t, tuple) and t and t[0] == "not":
            t, pol = t[1], not pol
        if is_const(key) and isinstance(key[1], int) and not isinstance(key[1], bool):
            k = key[1]
            if k < 0:
                continue
            if t in (ln, base) and pol is True and k == 0:
                return True
            if isinstance(t, tuple) and t[0] == "truthy":
                continue
            if isinstance(t, tuple) and t[0] == "cmp" and t[2] == ln and is_const(t[3]) and isinstance(t[3][1], int):
                op, cst = t[1], t[3][1]
                if not pol:
                    op = _NEGOP2.get(op, op)
                if (op == ">" and cst >= k) or (op == ">=" and cst > k) or (op == "==" and cst > k):
                    return True
            continue
        if isinstance(t, tuple) and t[0] == "cmp" and t[1] in _FLIPOP:
            op, a, b = t[1], t[2], t[3]
            if not pol:
                op = _NEGOP2[op]
            if a == ln and b == key:
                op, a, b = _FLIPOP[op], b, a
            if a == key and b == ln and op == "<":
                return True
    return False


def _is_number_term(t, depth=0):
    """Built from integer constants, parameters, loop-carried locals, arithmetic and len(): a number that was computed once."""
    if depth > 6 or not isinstance(t, tuple) or not t:
        return False
    if t[0] == "const":
        return isinstance(t[1], int) and not isinstance(t[1], bool)
    if t[0] in ("unk", "param"):
        return True
    if t[0] == "binop" and t[1] in ("Add", "Sub", "Mult", "FloorDiv", "Mod", "BitAnd", "BitOr", "LShift", "RShift"):
        return _is_number_term(t[2], depth + 1) and _is_number_term(t[3], depth + 1)
    if t[0] == "call" and t[1] == ("builtin", "len") and len(t[2]) == 1:
        return True
    return False


def _is_object_call(expr):
    return isinstance(expr, ast.Call) and isinstance(expr.func, ast.Name) and expr.func.id == "object" and not expr.args and not expr.keywords


class ExprMixin:

    def exc(self, st, cls, *args):
        return ("exc", cls, tuple(args), st.uid())

    # ---- generic ---------------------------------------------------------
    def ev(self, n, st, fx):
        """Yields (status, term, state); status is 'ok' or 'raise' (term is then the exception)."""
        m = getattr(self, "e_" + type(n).__name__, None)
        if m is None:
            raise AnalysisError("unsupported expression %s at %s:%d" % (type(n).__name__, fx.func.file,
                                                                        getattr(n, "lineno", 0)))
        yield from m(n, st, fx)

    def ev_list(self, nodes, st, fx):
        """Evaluate a list of expressions left to right; yields ('ok', [terms], st) or ('raise', exc, st)."""
        if not nodes:
            yield "ok", [], st
            return
        for r, t, s in self.ev(nodes[0], st, fx):
            if r == "raise":
                yield r, t, s
                continue
            for r2, ts, s2 in self.ev_list(nodes[1:], s, fx):
                if r2 == "raise":
                    yield r2, ts, s2
                else:
                    yield "ok", [t] + ts, s2

    def e_Constant(self, n, st, fx):
        yield "ok", const(n.value), st

    def e_JoinedStr(self, n, st, fx):
        yield "ok", ("unk", "fstring"), st

    def e_Name(self, n, st, fx):
        yield from self.ev_name(n, st, fx)

    def _resolved_to_term(self, r, name):
        if r is None:
            return None
        if r[0] == "class":
            return ("cls", r[1])
        if r[0] == "func":
            return ("func", r[1])
        if r[0] == "module":
            return ("module", r[1])
        if r[0] == "ext":
            return ("ext", r[1])
        if r[0] == "const":
            ok, v = self.prog.try_fold(r[1], r[2])
            if ok:
                if isinstance(v, (dict, list)):
                    return ("constobj", r[2].name + "." + name)
                return const(v)
            if _is_object_call(r[1]):
                return ("sentinel", r[2].name + "." + name)
            c = r[1]
            nt = self._namedtuple_def(c, r[2])
            if nt is not None:
                return nt
            if isinstance(c, ast.IfExp) and isinstance(c.body, ast.Name) and isinstance(c.orelse, ast.Name) \
                    and {c.body.id, c.orelse.id} <= {"str", "bytes"} and self.prog.resolve(r[2], c.body.id) is None \
                    and self.prog.resolve(r[2], c.orelse.id) is None:
                # NAME = str if PY2 else bytes: the interpreter's native byte-string constructor either way
                return ("builtin", "bytes")
            if isinstance(c, ast.Call) and isinstance(c.func, ast.Name) and not c.keywords and c.args \
                    and all(isinstance(a, ast.Constant) and isinstance(a.value, str) for a in c.args):
                f = self.prog.resolve(r[2], c.func.id)
                if f and f[0] == "ext" and f[1].split(".")[-1] == "attrgetter":
                    return ("attrgetter", tuple(a.value for a in c.args))
                if f and f[0] == "ext" and f[1].split(".")[-1] == "methodcaller" and len(c.args) == 1:
                    return ("methodcaller", c.args[0].value, ())       # NAME = methodcaller("stop"): calling NAME(x) is x.stop()
            st_ = self._static_term(c, r[2], 0)
            if st_ is not None:
                return st_
            return ("global", r[2].name + "." + name)
        return None

    def _static_term(self, c, module, depth):
        """A module-level table written as a display whose elements are not all constants - rows of (name, operator.methodcaller(..)),
        of (lambda r: test, lambda r: Exc(..)) - as a display of known length.  None when an element is something else."""
        if depth > 3:
            return None
        if isinstance(c, ast.Constant):
            return const(c.value)
        if isinstance(c, (ast.Tuple, ast.List)) and len(c.elts) <= 24:
            items = [self._static_term(e, module, depth + 1) for e in c.elts]
            if any(i is None for i in items) or (depth == 0 and not items):
                return None
            return ("tuple", tuple(items))
        if depth == 0:
            return None          # only displays are tables; anything else keeps its own treatment
        if isinstance(c, ast.Lambda):
            return ("lambda", c, (), 0)
        ok, v = self.prog.try_fold(c, module)
        if ok and not isinstance(v, (dict, list)):
            return const(v)
        if isinstance(c, ast.Name):
            rr = self.prog.resolve(module, c.id)
            if rr is not None and rr[0] in ("class", "func", "ext", "module"):
                return self._resolved_to_term(rr, c.id)
            return None
        if isinstance(c, ast.Call) and not c.keywords and c.args and all(isinstance(a, ast.Constant) for a in c.args):
            fn = c.func
            nm = fn.id if isinstance(fn, ast.Name) else (fn.attr if isinstance(fn, ast.Attribute) else None)
            f = self.prog.resolve(module, fn.id) if isinstance(fn, ast.Name) else None
            is_op = (f is not None and f[0] == "ext" and f[1].split(".")[-1] == nm) or (
                isinstance(fn, ast.Attribute) and isinstance(fn.value, ast.Name) and fn.value.id == "operator")
            if is_op and nm == "methodcaller" and isinstance(c.args[0].value, str):
                return ("methodcaller", c.args[0].value, tuple(const(a.value) for a in c.args[1:]))
            if is_op and nm == "attrgetter" and all(isinstance(a.value, str) for a in c.args):
                return ("attrgetter", tuple(a.value for a in c.args))
        return None

    def _namedtuple_def(self, c, module):
        """NAME = namedtuple('T', fields) with constant fields -> ('ntcls', 'T', fields)."""
        if not (isinstance(c, ast.Call) and isinstance(c.func, (ast.Name, ast.Attribute)) and len(c.args) == 2 and not c.keywords):
            return None
        fname = c.func.id if isinstance(c.func, ast.Name) else c.func.attr
        if fname != "namedtuple":
            return None
        if isinstance(c.func, ast.Name):
            f = self.prog.resolve(module, c.func.id)
            if not (f and f[0] == "ext" and f[1].split(".")[-1] == "namedtuple"):
                return None
        ok1, tn = self.prog.try_fold(c.args[0], module)
        ok2, fl = self.prog.try_fold(c.args[1], module)
        if not (ok1 and ok2 and isinstance(tn, str)):
            return None
        if isinstance(fl, str):
            fl = fl.replace(",", " ").split()
        if not (isinstance(fl, (list, tuple)) and all(isinstance(x, str) for x in fl)):
            return None
        return ("ntcls", tn, tuple(fl))

    def constobj_value(self, t):
        """Value of a ('constobj', 'module.name') or ('constobj', 'Class.attr') term."""
        q = t[1]
        modname, _, nm = q.rpartition(".")
        if modname in self.prog.modules:
            m = self.prog.modules[modname]
            if nm in m.consts:
                return self.prog.fold(m.consts[nm], m)
        if modname in self.prog.classes:
            c = self.prog.classes[modname]
            if nm in c.attrs:
                return self.prog.fold(c.attrs[nm], c.module, c, None, 0, True)
        raise NotConst()

    def ev_name(self, n, st, fx):
        name = n.id
        if name in st.env:
            v = st.env[name]
            if isinstance(v, tuple) and v[:1] == ("mu",):
                # bound only if an earlier loop ran at least once
                s2 = st.fork()
                del s2.env[name]
                self.emit(s2, fx, "UNDEFINED", n, name=name, local=True, why="loop that may not have run")
                yield "raise", self.exc(s2, "UnboundLocalError", name), s2
                st.env[name] = v[1]
                yield "ok", v[1], st
                return
            yield "ok", v, st
            return
        if name in fx.func.locals:
            # local, no binding on this path
            self.emit(st, fx, "UNDEFINED", n, name=name, local=True)
            yield "raise", self.exc(st, "UnboundLocalError", name), st
            return
        # closure variables of the enclosing frame
        if fx.outer_env is not None and name in fx.outer_env:
            yield "ok", fx.outer_env[name], st
            return
        if fx.func.parent is not None and name in fx.func.parent.locals:
            yield "ok", ("unk", "free:" + name), st
            return
        r = self.prog.resolve(fx.module, name)
        t = self._resolved_to_term(r, name)
        if t is not None:
            yield "ok", t, st
            return
        if name in BUILTIN_CONSTS:
            yield "ok", const(BUILTIN_CONSTS[name]), st
            return
        if name in BUILTINS_PURE or name in BUILTIN_EXC or name in ("getattr", "setattr", "hasattr", "super"):
            yield "ok", ("builtin", name), st
            return
        self.emit(st, fx, "UNDEFINED", n, name=name)
        yield "raise", self.exc(st, "NameError", name), st

    # ---- attributes ------------------------------------------------------
    def e_Attribute(self, n, st, fx):
        for r, base, s in self.ev(n.value, st, fx):
            if r == "raise":
                yield r, base, s
                continue
            yield from self.get_attr(base, n.attr, s, fx, n)

    def _class_attr_term(self, owner, expr, name):
        txt = ast.unparse(expr)
        if name == "callLater" or txt.endswith(".callLater"):
            return ("calllater",)
        ok, v = self.prog.try_fold(expr, owner.module, owner, class_body=True)
        if ok:
            if isinstance(v, (dict, list)):
                return ("constobj", owner.qual + "." + name)
            return const(v)
        if self.functable(("functable", owner.qual, name)) is not None:
            return ("functable", owner.qual, name)
        if isinstance(expr, ast.Name) and expr.id not in owner.methods:
            # a class attribute that names a class or a function of the repository (stateClass = ConnectedState): that class / function
            r = self.prog.resolve(owner.module, expr.id)
            if r and r[0] == "class":
                return ("cls", r[1])
            if r and r[0] == "func" and not r[1].is_generator:
                return ("func", r[1])
            if r and r[0] == "ext" and r[1].split(".")[-1] in ("deque", "OrderedDict", "defaultdict"):
                return ("ext", r[1])          # queueFactory = deque: the container type itself
            if r is None and expr.id in ("dict", "list", "set"):
                return ("builtin", expr.id)
        if _is_object_call(expr):
            return ("sentinel", owner.qual + "." + name)
        if isinstance(expr, (ast.Tuple, ast.List)) and expr.elts:
            # a class-level table whose rows name classes or functions next to constants: a display of known terms
            def val(v):
                if isinstance(v, ast.Name) and v.id in owner.methods:
                    return ("func", owner.methods[v.id])
                if isinstance(v, ast.Name):
                    r = self.prog.resolve(owner.module, v.id)
                    if r and r[0] == "class":
                        return ("cls", r[1])
                    if r and r[0] == "func":
                        return ("func", r[1])
                    if r and r[0] == "ext":
                        return ("ext", r[1])
                    if r is None and v.id in ("dict", "list", "set", "tuple", "bytearray", "str", "bytes", "int"):
                        return ("builtin", v.id)
                    if r and r[0] == "const":
                        ntc = self._namedtuple_def(r[1], r[2])
                        if ntc is not None:
                            return ntc
                if isinstance(v, (ast.Tuple, ast.List)):
                    xs = [val(x) for x in v.elts]
                    return None if any(x is None for x in xs) else ("tuple", tuple(xs))
                if isinstance(v, ast.Call) and isinstance(v.func, ast.Name):
                    # a row written as a namedtuple: Row('a', b) / Row(x='a', y=b)
                    fcls = val(v.func)
                    if isinstance(fcls, tuple) and fcls[:1] == ("ntcls",):
                        fields = fcls[2]
                        vals = [val(x) for x in v.args]
                        kws = {k.arg: val(k.value) for k in v.keywords}
                        if any(x is None for x in vals) or any(x is None for x in kws.values()) or None in kws:
                            return None
                        row = list(vals)
                        for fname in fields[len(vals):]:
                            if fname not in kws:
                                return None
                            row.append(kws[fname])
                        return ("tuple", tuple(row), fields) if len(row) == len(fields) else None
                ok2, c = self.prog.try_fold(v, owner.module, owner, class_body=True)
                return const(c) if ok2 and not isinstance(c, (dict, list)) else None
            if isinstance(expr, ast.Tuple):
                t = val(expr)
                if t is not None:
                    return t
        return ("classattr", owner.qual, name)

    def functable(self, t):
        """{constant key: term} for a class attribute written as a dict display from constants to functions of that class, classes
        of the program, constants, or tuples of those (a dispatch table); else None."""
        owner = self.prog.classes.get(t[1])
        expr = owner.attrs.get(t[2]) if owner is not None else None
        if not isinstance(expr, ast.Dict) or not expr.keys:
            return None

        def val(v):
            if isinstance(v, ast.Name) and v.id in owner.methods:
                return ("func", owner.methods[v.id])
            if isinstance(v, ast.Name):
                r = self.prog.resolve(owner.module, v.id)
                if r and r[0] == "class":
                    return ("cls", r[1])
                if r and r[0] == "func":
                    return ("func", r[1])
            if isinstance(v, ast.Tuple):
                xs = [val(x) for x in v.elts]
                return None if any(x is None for x in xs) else ("tuple", tuple(xs))
            ok, c = self.prog.try_fold(v, owner.module, owner, class_body=True)
            return const(c) if ok and not isinstance(c, (dict, list)) else None
        out = {}
        plain = True
        for k, v in zip(expr.keys, expr.values):
            okk, kv = self.prog.try_fold(k, owner.module, owner, class_body=True) if k is not None else (False, None)
            tv = val(v)
            if not okk or tv is None:
                return None
            if not is_const(tv):
                plain = False
            out[kv] = tv
        return None if plain else out

    def get_attr(self, base, attr, st, fx, node):
        key = (base, attr)
        if key in st.heap:
            yield "ok", st.heap[key], st
            return
        if not isinstance(base, tuple):
            yield "ok", ("attr", base, attr), st
            return
        kind = base[0]
        if kind == "tuple" and len(base) > 2 and attr in base[2]:
            yield "ok", base[1][base[2].index(attr)], st        # field of a namedtuple row
            return
        if base == ("attr", SELF, "state"):
            # state-pattern dispatch: one continuation per value self.state can take
            slots = [sl for sl in sorted(self.state_slots) if sl in self.state_values] or sorted(self.state_slots)
            for sl in slots:
                s2 = st.fork()
                obj = s2.heap.get((SELF, sl))
                if obj is None:
                    continue
                s2.heap[(SELF, "state")] = obj
                self.emit(s2, fx, "DISPATCH", node, slot=sl, op=attr, stateobj=obj)
                yield from self.get_attr(obj, attr, s2, fx, node)
            return
        cls = self.class_of(base)
        if base == SELF and attr == "transport":
            yield "ok", TRANSPORT, st
            return
        if base == SELF and attr == "factory":
            yield "ok", FAC, st
            return
        if base == FAC and attr in self.registries:
            yield "ok", ("regtop", attr), st
            return
        if cls is not None:
            f = self.prog.lookup_method(cls, attr)
            if f is not None and f.is_property:
                # a read-only accessor: reading the attribute runs its body
                yield from self.inline(f, base, [], {}, st, fx, node)
                return
            if f is not None:
                yield "ok", ("bm", base, f), st
                return
            ca = self.prog.lookup_classattr(cls, attr)
            if ca is not None:
                yield "ok", self._class_attr_term(ca[0], ca[1], attr), st
                return
            if base == SELF:
                if attr in self.instance_fields:
                    yield "ok", ("attr", base, attr), st
                    return
                if self.prog.has_external_attr(cls, attr):
                    yield "ok", ("extattr", attr), st
                    return
                self.emit(st, fx, "UNRESOLVED", node, recv=base, name=attr, cls=cls.qual)
                yield "raise", self.exc(st, "AttributeError", attr), st
                return
            if base == FAC:
                if self.prog.has_external_attr(cls, attr) or self._fac_field(attr):
                    yield "ok", ("attr", base, attr), st
                    return
                self.emit(st, fx, "UNRESOLVED", node, recv=base, name=attr, cls=cls.qual)
                yield "raise", self.exc(st, "AttributeError", attr), st
                return
            if attr in ("__class__",):
                yield "ok", ("cls", cls), st
                return
            # object created on this path: attribute never assigned -> from __init__ it would be in the heap
            yield "ok", ("attr", base, attr), st
            return
        if kind == "cls":
            c = base[1]
            f = self.prog.lookup_method(c, attr)
            if f is not None:
                yield "ok", ("func", f), st
                return
            ca = self.prog.lookup_classattr(c, attr)
            if ca is not None:
                yield "ok", self._class_attr_term(ca[0], ca[1], attr), st
                return
            yield "ok", ("attr", base, attr), st
            return
        if kind == "module":
            r = self.prog.resolve(base[1], attr)
            t = self._resolved_to_term(r, attr)
            yield "ok", (t if t is not None else ("attr", base, attr)), st
            return
        if kind == "ext":
            yield "ok", ("ext", base[1] + "." + attr), st
            return
        if kind in ("elem", "popped") and attr == self.elem_key_field and kind == "elem":
            # registry key invariant (checked by rule ID-KEY): element registered under k has .msgId == k
            if getattr(self, "use_key_invariant", True) and not (isinstance(base[2], tuple) and base[2][0] == "keyof"):
                yield "ok", base[2], st
                return
        if kind == "const" and base[1] is None:
            self.emit(st, fx, "NONE_DEREF", node, attr=attr)
            yield "raise", self.exc(st, "AttributeError", attr), st
            return
        # PDU-typed unknown objects: encode/decode resolve through the element class if known
        yield "ok", ("attr", base, attr), st

    def _fac_field(self, attr):
        for f in self.factory.methods.values():
            for x in ast.walk(f.node):
                if isinstance(x, ast.Attribute) and isinstance(x.ctx, ast.Store) and x.attr == attr \
                        and isinstance(x.value, ast.Name) and x.value.id == "self":
                    return True
        return False

    # ---- subscripts ------------------------------------------------------
    def e_Subscript(self, n, st, fx):
        for r, base, s in self.ev(n.value, st, fx):
            if r == "raise":
                yield r, base, s
                continue
            if isinstance(n.slice, ast.Slice):
                parts = [p for p in (n.slice.lower, n.slice.upper, n.slice.step)]
                def go(i, acc, s1):
                    if i == 3:
                        if isinstance(base, tuple) and base and base[0] in ("tuple", "list") and all(
                                x == NONE or (is_const(x) and isinstance(x[1], int)) for x in acc):
                            # a slice of a display whose elements are known: the display of the selected elements
                            lo, hi, stp = [None if x == NONE else x[1] for x in acc]
                            yield "ok", (base[0], tuple(base[1][slice(lo, hi, stp)])), s1
                            return
                        yield "ok", ("slice", base, acc[0], acc[1], acc[2]), s1
                        return
                    if parts[i] is None:
                        yield from go(i + 1, acc + [NONE], s1)
                        return
                    for r2, t2, s2 in self.ev(parts[i], s1, fx):
                        if r2 == "raise":
                            yield r2, t2, s2
                        else:
                            yield from go(i + 1, acc + [t2], s2)
                yield from go(0, [], s)
                continue
            for r2, key, s2 in self.ev(n.slice, s, fx):
                if r2 == "raise":
                    yield r2, key, s2
                    continue
                yield from self.get_item(base, key, s2, fx, n)

    def get_item(self, base, key, st, fx, node):
        if isinstance(base, tuple) and base[:1] == ("dict",) and len(base) == 2 and all(is_const(k) for k, v in base[1]):
            # a dict display with constant keys (a table of bound methods keyed by a flag): the entry under the key
            tab = {k[1]: v for k, v in base[1]}
            if is_const(key):
                if key[1] in tab:
                    yield "ok", tab[key[1]], st
                else:
                    yield "raise", self.exc(st, "KeyError", key), st
                return
            if set(tab) == {True, False}:
                t = key
                if isinstance(t, tuple) and t[:2] == ("call", ("builtin", "bool")) and len(t[2]) == 1:
                    t = t[2][0]
                if isinstance(t, tuple) and (t is not key or t[0] in ("cmp", "not", "boolop", "nonnull")):
                    # keyed by a truth value: one continuation per outcome, as an `if` on it would give
                    for r, pol, s2 in self._branch_term(t, st, fx, node, show(t)):
                        yield "ok", tab[bool(pol)], s2
                    return
            if tab and all(isinstance(k, int) and not isinstance(k, bool) for k in tab) and len(tab) <= 8:
                # keyed by a small number the path does not know (a QoS level): one continuation per key it can equal, and the miss
                known = {k: self.truth(("cmp", "==", key, const(k)), st) for k in tab}
                if not any(v is True for v in known.values()):
                    s_miss = st.fork()
                    for k in tab:
                        self.assume(("cmp", "==", key, const(k)), False, s_miss)
                    s_miss.conds = s_miss.conds + (Cond(("cmp", "in", key, ("tuple", tuple(const(k) for k in tab))), False, fx.func.file,
                                                        getattr(node, "lineno", 0), "%s in table" % show(key)),)
                    yield "raise", self.exc(s_miss, "KeyError", key), s_miss
                for k in tab:
                    if known[k] is False or (any(v is True for v in known.values()) and known[k] is not True):
                        continue
                    s_k = st.fork()
                    self.assume(("cmp", "==", key, const(k)), True, s_k)
                    s_k.conds = s_k.conds + (Cond(("cmp", "==", key, const(k)), True, fx.func.file, getattr(node, "lineno", 0),
                                                  "%s == %r" % (show(key), k)),)
                    yield "ok", tab[k], s_k
                return
        if isinstance(base, tuple):
            if base[0] == "regtop":
                if isinstance(key, tuple) and key[:1] == ("param",):
                    # a registry read under an address handed in from outside (buildProtocol): the address may be new
                    t = ("cmp", "in", key, base)
                    known = st.facts.get(t)
                    text = "%s in %s" % (show(key), show(base))
                    if known is not True:
                        s2 = st.fork()
                        s2.facts[t] = False
                        s2.conds = s2.conds + (Cond(t, False, fx.func.file, getattr(node, "lineno", 0), text),)
                        yield "raise", self.exc(s2, "KeyError", key), s2
                        if known is False:
                            return
                        st.facts[t] = True
                        st.conds = st.conds + (Cond(t, True, fx.func.file, getattr(node, "lineno", 0), text),)
                self.emit(st, fx, "REGADDR", node, reg=base[1], key=key)
                yield "ok", ("reg", base[1], key), st
                return
            if base[0] == "reg" and base[1] in getattr(self, "seq_registries", ()) and key == ("const", 0):
                # q[0]: the head of the queue, looked at before it is taken (IndexError on an empty queue)
                if not self._known_nonempty(base, st):
                    s2 = st.fork()
                    self.emit(s2, fx, "LOOKUP", node, reg=base[1], key=None, addr=base[2], hit=False, how="peek-empty")
                    yield "raise", self.exc(s2, "IndexError", NONE), s2
                t = st.heap.get((("peek",), base[1]))
                if t is None:
                    t = ("popped", base[1], st.uid())
                    st.heap[(("peek",), base[1])] = t
                yield "ok", t, st
                return
            if base[0] == "reg":
                if ("gone", base[1], key) in st.hits:
                    # the entry was deleted earlier on this very path and not stored again: a certain KeyError
                    self.emit(st, fx, "LOOKUP", node, reg=base[1], key=key, addr=base[2], hit=False, how="getitem")
                    yield "raise", self.exc(st, "KeyError", key), st
                    return
                known = (base[1], key) in st.hits or (isinstance(key, tuple) and key[0] == "keyof")
                if not known:
                    s2 = st.fork()
                    self.emit(s2, fx, "LOOKUP", node, reg=base[1], key=key, addr=base[2], hit=False, how="getitem")
                    yield "raise", self.exc(s2, "KeyError", key), s2
                self.emit(st, fx, "LOOKUP", node, reg=base[1], key=key, addr=base[2], hit=True, how="getitem")
                st.hits.add((base[1], key))
                yield "ok", ("elem", base[1], key), st
                return
            if base[0] == "constobj" or (base[0] == "const" and isinstance(base[1], tuple) and base[1]):
                try:
                    v = self.constobj_value(base) if base[0] == "constobj" else base[1]
                except NotConst:
                    v = None
                if isinstance(v, dict):
                    if is_const(key):
                        if key[1] in v:
                            yield "ok", const(v[key[1]]), st
                        else:
                            yield "raise", self.exc(st, "KeyError", key), st
                        return
                    # unknown key into a constant mapping: every value, or a miss - unless the path has already decided
                    # (a membership test, an equality) which
                    known = {k: self.truth(("cmp", "==", key, const(k)), st) for k in v}
                    sure = [k for k in v if known[k] is True]
                    if not sure and not (known and all(x is False for x in known.values()) and False):
                        if not all(x is False for x in known.values()) or True:
                            if not (st.facts.get(("cmp", "in", key, base)) is True):
                                s_miss = st.fork()
                                self.emit(s_miss, fx, "CONSTMAP", node, obj=base, key=key, hit=False)
                                for k in v:
                                    self.assume(("cmp", "==", key, const(k)), False, s_miss)
                                yield "raise", self.exc(s_miss, "KeyError", key), s_miss
                    if st.facts.get(("cmp", "in", key, base)) is False:
                        return
                    for k in v:
                        if known[k] is False or (sure and k not in sure):
                            continue
                        s_k = st.fork()
                        self.emit(s_k, fx, "CONSTMAP", node, obj=base, key=key, hit=True, kval=k, val=v[k])
                        self.assume(("cmp", "==", key, const(k)), True, s_k)
                        yield "ok", const(v[k]), s_k
                    return
                if isinstance(v, (list, tuple)):
                    if is_const(key) and isinstance(key[1], int) and -len(v) <= key[1] < len(v):
                        yield "ok", const(v[key[1]]), st
                        return
                    ev = self.emit(st, fx, "CONSTSEQ", node, obj=base, key=key, size=len(v))
                    if v and len(v) <= 16 and all(isinstance(x, str) for x in v):
                        # a small table of names (dispatch table written as a sequence): every entry, or an index past the end
                        if not _upper_bounded(ev.conds, key, len(v)):
                            s_miss = st.fork()
                            self.emit(s_miss, fx, "CONSTMAP", node, obj=base, key=key, hit=False)
                            yield "raise", self.exc(s_miss, "IndexError", key), s_miss
                        for k, val in enumerate(v):
                            s_k = st.fork()
                            self.emit(s_k, fx, "CONSTMAP", node, obj=base, key=key, hit=True, kval=k, val=val)
                            yield "ok", const(val), s_k
                        return
                    yield "ok", ("sub", base, key), st
                    return
            if base[0] == "functable":
                yield from self.functable_lookup(base, key, None, st, fx, node, subscript=True)
                return
            if base[0] == "attr" and base[1] == SELF and not (isinstance(key, tuple) and key[:1] == ("slice",)) \
                    and getattr(self, "full_init_heap", {}).get((SELF, base[2])) == ("call", ("builtin", "bytearray"), ()) \
                    and not isinstance(getattr(node, "slice", None), ast.Slice):
                # a byte of the receive buffer: reading past what has arrived is an IndexError, unless the path has tested the
                # length (what arrives, and in how many pieces, is up to the network)
                if not _index_guarded(st.conds, base, key):
                    s2 = st.fork()
                    self.emit(s2, fx, "BUFINDEX", node, base=base, key=key)
                    yield "raise", self.exc(s2, "IndexError", "bytearray index out of range"), s2
        yield "ok", ("sub", base, key), st

    def functable_lookup(self, base, key, dflt, st, fx, node, subscript=False):
        """Lookup in a dispatch table of functions: every entry (the key is then known to equal that entry's), or a miss."""
        tab = self.functable(base)
        if is_const(key):
            if key[1] in tab:
                yield "ok", tab[key[1]], st
            elif subscript:
                yield "raise", self.exc(st, "KeyError", key), st
            else:
                yield "ok", dflt if dflt is not None else NONE, st
            return
        known = {k: self.truth(("cmp", "==", key, const(k)), st) for k in tab}
        if not any(v is True for v in known.values()):
            s_miss = st.fork()
            self.emit(s_miss, fx, "CONSTMAP", node, obj=base, key=key, hit=False, how="functable")
            for k in tab:
                self.assume(("cmp", "==", key, const(k)), False, s_miss)
            if subscript:
                yield "raise", self.exc(s_miss, "KeyError", key), s_miss
            else:
                yield "ok", dflt if dflt is not None else NONE, s_miss
        for k, f in tab.items():
            if known[k] is False or (any(v is True for v in known.values()) and known[k] is not True):
                continue       # the path already knows the key is not this one
            s_k = st.fork()
            self.emit(s_k, fx, "CONSTMAP", node, obj=base, key=key, hit=True, kval=k, val=show(f), how="functable")
            c = ("cmp", "==", key, const(k))
            s_k.conds = s_k.conds + (Cond(c, True, fx.func.file, getattr(node, "lineno", 0), "%s == %r" % (show(key), k)),)
            self.assume(c, True, s_k)
            yield "ok", f, s_k

    # ---- operators -------------------------------------------------------
    def binop(self, opname, a, b):
        if is_const(a) and is_const(b):
            try:
                return const(fold_binop(getattr(ast, opname)(), a[1], b[1]))
            except Exception:
                pass
        if opname == "Add" and isinstance(a, tuple) and isinstance(b, tuple) and a[:1] == b[:1] and a[:1] in (("tuple",), ("list",)) \
                and len(a) == 2 and len(b) == 2:
            return (a[0], tuple(a[1]) + tuple(b[1]))       # two displays of known length joined
        return ("binop", opname, a, b)

    def e_BinOp(self, n, st, fx):
        for r, a, s in self.ev(n.left, st, fx):
            if r == "raise":
                yield r, a, s
                continue
            for r2, b, s2 in self.ev(n.right, s, fx):
                if r2 == "raise":
                    yield r2, b, s2
                    continue
                yield "ok", self.binop(type(n.op).__name__, a, b), s2

    def e_UnaryOp(self, n, st, fx):
        for r, a, s in self.ev(n.operand, st, fx):
            if r == "raise":
                yield r, a, s
                continue
            if isinstance(n.op, ast.Not):
                k = self.truth(a, s)
                yield "ok", (const(not k) if k is not None else ("not", a)), s
            elif is_const(a) and isinstance(a[1], (int, float)):
                v = a[1]
                yield "ok", const(-v if isinstance(n.op, ast.USub) else (~v if isinstance(n.op, ast.Invert) else +v)), s
            else:
                yield "ok", ("unop", type(n.op).__name__, a), s

    def e_BoolOp(self, n, st, fx):
        # value semantics are not needed; keep a structured term
        for r, ts, s in self.ev_list(n.values, st, fx):
            if r == "raise":
                yield r, ts, s
            elif isinstance(n.op, ast.Or) and len(ts) == 2 and ts[1] == NONE:
                # `x or None`: x where it is set, None where it is not - for an optional value (None or an object) that is x itself
                yield "ok", ts[0], s
            else:
                yield "ok", ("boolop", type(n.op).__name__, tuple(ts)), s

    def e_Compare(self, n, st, fx):
        from .terms import has_genobj
        if len(n.ops) == 1 and isinstance(n.ops[0], (ast.In, ast.NotIn)) and isinstance(n.comparators[0], ast.Name) \
                and has_genobj(st.env.get(n.comparators[0].id)):
            raise AnalysisError("membership test on a generator object (%s) at %s:%d: not read" % (n.comparators[0].id, fx.func.file, n.lineno))
        # x in (E for v in IT)  /  x in map(f, IT)   ==   any(E == x for v in IT)      (and `not in` its negation)
        if len(n.ops) == 1 and isinstance(n.ops[0], (ast.In, ast.NotIn)):
            c = n.comparators[0]
            if isinstance(c, ast.Call) and isinstance(c.func, ast.Name) and c.func.id == "map" and "map" not in st.env and len(c.args) == 2 \
                    and not c.keywords and self.prog.resolve(fx.module, "map") is None:
                v_ = "__map_item_%d" % n.lineno
                c = ast.GeneratorExp(elt=ast.Call(func=c.args[0], args=[ast.Name(id=v_, ctx=ast.Load())], keywords=[]),
                                     generators=[ast.comprehension(target=ast.Name(id=v_, ctx=ast.Store()), iter=c.args[1], ifs=[], is_async=0)])
            if isinstance(c, ast.GeneratorExp):
                gen = ast.GeneratorExp(elt=ast.Compare(left=c.elt, ops=[ast.Eq()], comparators=[n.left]), generators=c.generators)
                alt = ast.Call(func=ast.Name(id="any", ctx=ast.Load()), args=[gen], keywords=[])
                if isinstance(n.ops[0], ast.NotIn):
                    alt = ast.UnaryOp(op=ast.Not(), operand=alt)
                ast.copy_location(alt, n)
                ast.fix_missing_locations(alt)
                # the enclosing statement must see the rewritten node (consumer detection walks the function's tree)
                for parent in ast.walk(fx.func.node):
                    for fld, val in ast.iter_fields(parent):
                        if val is n:
                            setattr(parent, fld, alt)
                        elif isinstance(val, list):
                            for i_, x_ in enumerate(val):
                                if x_ is n:
                                    val[i_] = alt
                yield from self.ev(alt, st, fx)
                return
        for r, ts, s in self.ev_list([n.left] + list(n.comparators), st, fx):
            if r == "raise":
                yield r, ts, s
                continue
            parts = []
            for i, op in enumerate(n.ops):
                if isinstance(op, (ast.In, ast.NotIn)) and isinstance(ts[i + 1], tuple) and ts[i + 1][:1] == ("regtop",) \
                        and ts[i] == ("attr", SELF, "addr"):
                    # every registry has an entry for the address of every protocol built (buildProtocol; C19 I-BUILD-ALL,
                    # nothing removes one): the test is a keyed access that always finds the address
                    self.emit(s, fx, "REGADDR", n, reg=ts[i + 1][1], key=ts[i], base_node=n.comparators[i], how="in")
                    parts.append(const(isinstance(op, ast.In)))
                    continue
                if isinstance(op, (ast.In, ast.NotIn)):
                    self.emit(s, fx, "MEMBER", n, item=ts[i], container=ts[i + 1])
                parts.append(self.cmp_term(CMP[type(op)], ts[i], ts[i + 1]))
            if len(parts) > 1 and all(is_const(x) for x in parts):
                yield "ok", const(all(x[1] for x in parts)), s
                continue
            yield "ok", (parts[0] if len(parts) == 1 else ("boolop", "And", tuple(parts))), s

    def cmp_term(self, op, a, b):
        if is_const(a) and is_const(b):
            try:
                va, vb = a[1], b[1]
                res = {"==": lambda: va == vb, "!=": lambda: va != vb, "<": lambda: va < vb, "<=": lambda: va <= vb,
                       ">": lambda: va > vb, ">=": lambda: va >= vb, "is": lambda: va is vb,
                       "is not": lambda: va is not vb, "in": lambda: va in vb, "not in": lambda: va not in vb}[op]()
                return const(bool(res))
            except Exception:
                pass
        if a == b and op in ("==", "!=", "<=", ">=", "<", ">") and _is_number_term(a):
            # the very same number on both sides (n = len(buf) ... if last == n, with last = n on this path)
            return const(op in ("==", "<=", ">="))
        if op in ("is", "is not", "==", "!="):
            # a sentinel (NAME = object(), made once when its module or class body runs) is identical to itself and to nothing
            # else that has an identity of its own
            sa, sb = isinstance(a, tuple) and a[:1] == ("sentinel",), isinstance(b, tuple) and b[:1] == ("sentinel",)
            if sa and sb:
                return const((a == b) == (op in ("is", "==")))
            if sa or sb:
                other = b if sa else a
                if isinstance(other, tuple) and other[:1] in (("elem",), ("popped",), ("new",), ("const",), ("dfr",), ("timer",), ("func",),
                                                              ("cls",), ("bm",), ("closure",), ("reg",), ("regtop",), ("tuple",)):
                    return const(op in ("is not", "!="))
        # canonical order for symmetric operators: constant on the right
        if is_const(a) and not is_const(b) and op in FLIP:
            a, b, op = b, a, FLIP[op]
        if op in ("is", "is not", "==", "!=") and b == NONE:
            nn = self.nonnull_known(a)
            if nn is not None:
                return const(nn if op in ("is not", "!=") else not nn)
            if op in ("is", "is not"):
                return ("nonnull", a) if op == "is not" else ("not", ("nonnull", a))
        return ("cmp", op, a, b)

    def nonnull_known(self, t):
        if not isinstance(t, tuple):
            return None
        if t[0] in ("new", "bm", "func", "cls", "closure", "timer", "dfr", "exc", "tuple", "reg", "regtop", "sentinel",
                    "loopcall", "encres", "lambda", "partial", "attrgetter", "methodcaller", "functable"):
            return True
        if t[0] in ("elem", "popped"):
            return True     # what a registry holds is a request object (emit() refuses a None stored into a registry)
        if t[0] == "const":
            return t[1] is not None
        if t[0] == "binop":
            return True     # the result of arithmetic is a number (None as an operand raises instead)
        if t[0] == "boolop" and t[1] == "Or" and t[2]:
            # a or b or c: one of the operands; not None when the last one is not and the earlier ones are not None either (None is falsy:
            # it is never the one `or` stops at unless it is the last)
            last = self.nonnull_known(t[2][-1])
            if last is True:
                return True
        return None

    def truthy_known(self, t):
        """True when the term can only be a truthy value: a truthy constant, or `a or b or c` whose last operand is one."""
        if not isinstance(t, tuple):
            return None
        if t[0] == "const":
            return bool(t[1])
        if t[0] == "boolop" and t[1] == "Or" and t[2] and self.truthy_known(t[2][-1]) is True:
            return True
        return None

    def e_IfExp(self, n, st, fx):
        for r, t, s in self.ev(n.test, st, fx):
            if r == "raise":
                yield r, t, s
                continue
            k = self.truth(t, s)
            if k is not None:
                yield from self.ev(n.body if k else n.orelse, s, fx)
                continue
            def _state_arm(x):
                return isinstance(x, ast.Attribute) and x.attr in self.state_slots
            if ((isinstance(n.body, ast.Constant) and n.body.value is None) != (isinstance(n.orelse, ast.Constant) and n.orelse.value is None)) \
                    or (_state_arm(n.body) and _state_arm(n.orelse)):
                # (also: the next protocol state chosen by a conditional expression - each state is a history of its own)
                # `x if c else None`: a value-or-nothing result that is tested for None later - the path forks on c, so that the
                # side that has the value also has the fact c
                text = ast.unparse(n.test)
                for pol in (True, False):
                    s2 = s.fork()
                    s2.conds = s2.conds + (Cond(t, pol, fx.func.file, n.lineno, text),)
                    self.assume(t, pol, s2)
                    yield from self.ev(n.body if pol else n.orelse, s2, fx)
                continue
            # undecidable test: both arms are evaluated, each under its own branch condition (no path fork)
            saved = s.conds
            text = ast.unparse(n.test)
            s.conds = saved + (Cond(t, True, fx.func.file, n.lineno, text),)
            for r1, a, s1 in self.ev(n.body, s, fx):
                if r1 == "raise":
                    s1.conds = saved
                    yield r1, a, s1
                    continue
                s1.conds = saved + (Cond(t, False, fx.func.file, n.lineno, text),)
                for r2, b, s2 in self.ev(n.orelse, s1, fx):
                    s2.conds = saved
                    if r2 == "raise":
                        yield r2, b, s2
                    elif all(isinstance(x, tuple) and x and x[0] in ("bm", "func", "closure", "partial", "lambda", "cls") for x in (a, b)):
                        # a choice between two callables (A if c else B)(..): the call goes one way or the other
                        for pol, val in ((True, a), (False, b)):
                            s3 = s2.fork()
                            s3.conds = saved + (Cond(t, pol, fx.func.file, n.lineno, text),)
                            self.assume(t, pol, s3)
                            yield "ok", val, s3
                    else:
                        yield "ok", ("ifexp", a, b, t), s2

    def e_Tuple(self, n, st, fx):
        for r, ts, s in self.ev_list(n.elts, st, fx):
            if r == "raise":
                yield r, ts, s
            else:
                yield "ok", ("tuple", tuple(ts)), s

    def e_List(self, n, st, fx):
        for r, ts, s in self.ev_list(n.elts, st, fx):
            if r == "raise":
                yield r, ts, s
            else:
                yield "ok", ("list", tuple(ts)), s

    def e_Slice(self, n, st, fx):
        parts = [n.lower, n.upper, n.step]

        def go(i, acc, s1):
            if i == 3:
                yield "ok", ("slicekey", acc[0], acc[1], acc[2]), s1
                return
            if parts[i] is None:
                yield from go(i + 1, acc + [NONE], s1)
                return
            for r2, t2, s2 in self.ev(parts[i], s1, fx):
                if r2 == "raise":
                    yield r2, t2, s2
                else:
                    yield from go(i + 1, acc + [t2], s2)
        yield from go(0, [], st)

    def e_Set(self, n, st, fx):
        for r, ts, s in self.ev_list(n.elts, st, fx):
            if r == "raise":
                yield r, ts, s
            else:
                yield "ok", ("setlit", tuple(ts)), s

    def e_NamedExpr(self, n, st, fx):
        for r, t, s in self.ev(n.value, st, fx):
            if r == "raise":
                yield r, t, s
            else:
                s.env[n.target.id] = t
                yield "ok", t, s

    def e_Dict(self, n, st, fx):
        # a small display with constant keys keeps its structure (a table of fields handed to a setattr loop, say); `{}` and
        # everything else stays an opaque fresh dict
        if n.keys and len(n.keys) <= 24 and all(k is not None for k in n.keys):
            def go(i, s, acc):
                if i == len(n.keys):
                    yield "ok", ("dict", tuple(acc)), s
                    return
                for r, k, s1 in self.ev(n.keys[i], s, fx):
                    if r == "raise":
                        yield r, k, s1
                        continue
                    for r2, v, s2 in self.ev(n.values[i], s1, fx):
                        if r2 == "raise":
                            yield r2, v, s2
                        elif not is_const(k):
                            yield "ok", ("dictlit", s2.uid()), s2
                            return
                        else:
                            yield from go(i + 1, s2, acc + [(k, v)])
            yield from go(0, st, [])
            return
        yield "ok", ("dictlit", st.uid()), st

    def _comprehension(self, n, elts, st, fx):
        """Comprehensions and generator expressions: iterables and element expressions are evaluated once for their events
        (registry reads, membership tests); the result is opaque."""
        if len(n.generators) == 1 and not n.generators[0].ifs and len(elts) == 1 and isinstance(n, (ast.ListComp, ast.GeneratorExp)):
            # over a display whose elements are known (a constant table, a tuple of registries): the list of the instances
            g = n.generators[0]
            for r0, it0, s0 in self.ev(g.iter, st.fork(), fx):
                items = None
                if r0 == "ok" and isinstance(it0, tuple):
                    if it0[0] in ("tuple", "list"):
                        items = list(it0[1])
                    elif is_const(it0) and isinstance(it0[1], (tuple, list)):
                        items = [const(x) for x in it0[1]]
                break
            else:
                items = None
            if items is not None and len(items) <= 16:
                saved0 = dict(st.env)

                def go(i, s, acc):
                    if i == len(items):
                        for k in list(s.env):
                            if k not in saved0:
                                del s.env[k]
                        yield "ok", ("list", tuple(acc)), s
                        return
                    for ex, s1 in self.assign(g.target, items[i], s, fx, n):
                        if ex is not None:
                            yield "raise", ex[1], s1
                            continue
                        for r1, v1, s2 in self.ev(elts[0], s1, fx):
                            if r1 == "raise":
                                yield r1, v1, s2
                            else:
                                yield from go(i + 1, s2, acc + [v1])
                for r0, it0, s0 in self.ev(g.iter, st, fx):
                    if r0 == "raise":
                        yield r0, it0, s0
                    else:
                        yield from go(0, s0, [])
                return
        saved = dict(st.env)
        consumer = None
        for c in ast.walk(fx.func.node):
            if isinstance(c, ast.Call) and any(a is n for a in c.args) and isinstance(c.func, ast.Name):
                consumer = c.func.id
            elif isinstance(c, ast.Call) and any(a is n for a in c.args) and isinstance(c.func, ast.Attribute):
                consumer = "." + c.func.attr
        materialised = consumer is None and isinstance(n, (ast.ListComp, ast.SetComp))
        if materialised:
            consumer = "list" if isinstance(n, ast.ListComp) else "set"       # the comprehension builds the collection itself
        seen_iters, seen_ifs = [], []

        def gens(i, s):
            if i == len(n.generators):
                for r3, ts3, s3 in self.ev_list(list(elts), s, fx):
                    if r3 != "raise":
                        self.emit(s3, fx, "COMP", n, ckind=type(n).__name__, iters=tuple(seen_iters), ifs=tuple(seen_ifs), elts=tuple(ts3),
                                  consumer=consumer)
                    yield r3, ts3, s3
                return
            g = n.generators[i]
            for r, it, s1 in self.ev(g.iter, s, fx):
                if r == "raise":
                    yield r, it, s1
                    continue
                known = None
                if isinstance(it, tuple) and it[0] in ("tuple", "list") and len(it[1]) <= 16 and len(n.generators) > 1:
                    known = list(it[1])       # a display of known elements (a tuple of registries): one pass per element
                for item in (known if known is not None else [None]):
                    s1b = s1 if known is None else s1.fork()
                    bound = ("iterof", it) if known is None else item
                    for _ in self.assign(g.target, bound, s1b, fx, n):
                        pass
                    for r2, conds, s2 in self.ev_list(list(g.ifs), s1b, fx):
                        if r2 == "raise":
                            yield r2, conds, s2
                        else:
                            del seen_iters[i:]
                            del seen_ifs[i:]
                            seen_iters.append(it if known is None else ("tuple", (item,)))
                            seen_ifs.append(tuple(conds))
                            yield from gens(i + 1, s2)
        for r, ts, s in gens(0, st):
            for k in list(s.env):
                if k not in saved:
                    del s.env[k]
            if r == "raise":
                yield r, ts, s
            else:
                term = ("comp", type(n).__name__, tuple(ts))
                if materialised and any(isinstance(sub, tuple) and sub[:1] in (("reg",), ("regtop",)) for it in seen_iters for sub in subterms(it)):
                    # a local collection drawn from a registry ([r.msgId for r in queue]): like set(<genexp>), its identity links what
                    # went in with the membership tests made on it later
                    acc = ("accum", consumer, s.uid())
                    self.emit(s, fx, "ACCUM", n, acc=acc, how="init", src=term)
                    term = acc
                yield "ok", term, s

    def e_ListComp(self, n, st, fx):
        yield from self._comprehension(n, [n.elt], st, fx)

    def e_SetComp(self, n, st, fx):
        yield from self._comprehension(n, [n.elt], st, fx)

    def e_GeneratorExp(self, n, st, fx):
        yield from self._comprehension(n, [n.elt], st, fx)

    def e_DictComp(self, n, st, fx):
        yield from self._comprehension(n, [n.key, n.value], st, fx)

    def e_Lambda(self, n, st, fx):
        # captured by value as of now (the locals a lambda of this code base closes over are not re-bound afterwards)
        yield "ok", ("lambda", n, tuple(sorted((k, v) for k, v in st.env.items() if isinstance(k, str))), st.uid()), st

    def e_Starred(self, n, st, fx):
        yield from self.ev(n.value, st, fx)

    # ---- truthiness and branching ------------------------------------------
    def truth(self, t, st):
        """Known truth value of a term on this path, or None."""
        if not isinstance(t, tuple):
            return None
        k = t[0]
        if k == "const":
            return bool(t[1])
        if k in ("new", "bm", "func", "cls", "closure", "timer", "dfr", "loopcall", "exc", "elem", "popped", "sentinel"):
            return True
        if k == "not":
            v = self.truth(t[1], st)
            return None if v is None else (not v)
        if k == "nonnull":
            nn = self.nonnull_known(t[1])
            if nn is not None:
                return nn
            if t in st.facts:
                return st.facts[t]
            tr = st.facts.get(("truthy", t[1]))
            if tr is True:
                return True
            # a value the path has compared by order with a number is not None (None < 3 raises TypeError)
            for f in st.facts:
                if isinstance(f, tuple) and len(f) == 4 and f[0] == "cmp" and f[1] in ("<", "<=", ">", ">=") and (
                        (f[2] == t[1] and is_const(f[3]) and isinstance(f[3][1], (int, float)) and not isinstance(f[3][1], bool)) or
                        (f[3] == t[1] and is_const(f[2]) and isinstance(f[2][1], (int, float)) and not isinstance(f[2][1], bool))):
                    return True
            return None
        if k == "boolop":
            vals = [self.truth(x, st) for x in t[2]]
            if t[1] == "And":
                if any(v is False for v in vals):
                    return False
                if all(v is True for v in vals):
                    return True
            else:
                if any(v is True for v in vals):
                    return True
                if all(v is False for v in vals):
                    return False
            return None
        if k == "cmp":
            if t in st.facts:
                return st.facts[t]
            if t[1] in ("is", "is not") and all(isinstance(x, tuple) and len(x) == 3 and x[0] == "reg" for x in t[2:4]):
                # two per-address containers compared by identity: the same one, or two of the distinct containers buildProtocol stores
                # (that they are distinct objects is C19's I-FRESH / I-SHARED)
                same = t[2] == t[3]
                if same or t[2][1] != t[3][1]:
                    return same if t[1] == "is" else (not same)
            if t[1] in ("==", "!=") and is_const(t[3]) and not t[3][1] and t[3][1] is not None and self.truthy_known(t[2]) is True:
                return t[1] == "!="       # a value that is never falsy (`x or 1`) does not equal 0 / '' / False
            neg = ("cmp", NEG.get(t[1], "?"), t[2], t[3])
            if neg in st.facts:
                return not st.facts[neg]
            if t[1] in ("==", "!=") and is_const(t[3]):
                # the same term is known to equal a different constant
                for f, v in st.facts.items():
                    if isinstance(f, tuple) and len(f) == 4 and f[0] == "cmp" and ((f[1] == "==" and v is True) or (f[1] == "!=" and v is False)) \
                            and f[2] == t[2] and is_const(f[3]) and f[3] != t[3] and type(f[3][1]) is type(t[3][1]):
                        return t[1] == "!="
            return None
        key = ("truthy", t)
        if key in st.facts:
            return st.facts[key]
        nn = st.facts.get(("nonnull", t))
        if nn is False:
            return False
        # a value known to equal a constant is as true as that constant (q == 1 holds: `if q:` is taken)
        for f, v in st.facts.items():
            if isinstance(f, tuple) and len(f) == 4 and f[0] == "cmp" and f[2] == t and is_const(f[3]) and isinstance(f[3][1], (int, str, bool)) \
                    and ((f[1] == "==" and v is True) or (f[1] == "!=" and v is False)):
                return bool(f[3][1])
        return None

    def assume(self, t, pol, st):
        if not isinstance(t, tuple):
            return
        if t[0] == "not":
            self.assume(t[1], not pol, st)
        elif t[0] in ("nonnull", "cmp"):
            st.facts[t] = pol
        elif t[0] == "boolop":
            if t[1] == "And" and pol:
                for x in t[2]:
                    self.assume(x, True, st)
            elif t[1] == "Or" and not pol:
                for x in t[2]:
                    self.assume(x, False, st)
        else:
            st.facts[("truthy", t)] = pol

    def branch(self, test, st, fx, record=True):
        """Yields ('ok', polarity, state) for each feasible outcome of a condition, or ('raise', exc, state).
        With record=False an undecidable test yields polarity None once (no fork)."""
        if isinstance(test, ast.BoolOp) and record:
            is_and = isinstance(test.op, ast.And)
            def go(i, s):
                if i == len(test.values):
                    yield "ok", is_and, s
                    return
                for r, pol, s1 in self.branch(test.values[i], s, fx):
                    if r == "raise":
                        yield r, pol, s1
                    elif pol != is_and:
                        yield "ok", pol, s1      # short circuit
                    else:
                        yield from go(i + 1, s1)
            yield from go(0, st)
            return
        if isinstance(test, ast.UnaryOp) and isinstance(test.op, ast.Not) and record:
            for r, pol, s in self.branch(test.operand, st, fx):
                yield r, (pol if r == "raise" else (not pol)), s
            return
        if isinstance(test, ast.Compare) and len(test.ops) > 1 and record:
            # chained comparison: a < b < c  ==  a < b and b < c
            parts = []
            left = test.left
            for op, right in zip(test.ops, test.comparators):
                parts.append(ast.Compare(left=left, ops=[op], comparators=[right]))
                left = right
            bo = ast.BoolOp(op=ast.And(), values=parts)
            ast.copy_location(bo, test)
            for p in parts:
                ast.copy_location(p, test)
            yield from self.branch(bo, st, fx)
            return
        if isinstance(test, ast.Compare) and len(test.ops) == 1 and isinstance(test.ops[0], (ast.In, ast.NotIn)) and record \
                and isinstance(test.comparators[0], (ast.Tuple, ast.List, ast.Set)) and 0 < len(test.comparators[0].elts) <= 8 \
                and all(isinstance(x, ast.Constant) or (isinstance(x, (ast.Name, ast.Attribute)) and not any(
                    isinstance(y, (ast.Call, ast.Subscript)) for y in ast.walk(x))) for x in test.comparators[0].elts) \
                and not any(isinstance(y, (ast.Call, ast.NamedExpr, ast.Await)) for y in ast.walk(test.left)):
            # x in (c1, c2, ..)  ==  x == c1 or x == c2 ..   (so the later x == ci tests are decided by the facts)
            isin = isinstance(test.ops[0], ast.In)
            parts = [ast.Compare(left=test.left, ops=[ast.Eq() if isin else ast.NotEq()], comparators=[c]) for c in test.comparators[0].elts]
            bo = ast.BoolOp(op=ast.Or() if isin else ast.And(), values=parts) if len(parts) > 1 else parts[0]
            ast.copy_location(bo, test)
            for p in parts:
                ast.copy_location(p, test)
            ast.fix_missing_locations(bo)
            yield from self.branch(bo, st, fx)
            return
        for r, t, s in self.ev(test, st, fx):
            if r == "raise":
                yield r, t, s
                continue
            k = self.truth(t, s)
            if k is not None:
                yield "ok", k, s
                continue
            if not record:
                yield "ok", None, s
                continue
            text = ast.unparse(test)
            if isinstance(t, tuple) and t[0] == "cmp" and t[1] in ("in", "not in") and isinstance(t[3], tuple) and t[3] and t[3][0] == "constobj":
                try:
                    cv = self.constobj_value(t[3])
                except Exception:
                    cv = None
                if isinstance(cv, dict) and cv and len(cv) <= 32:
                    # membership among the keys of a constant mapping: one of them (the later subscript is then a sure hit), or none
                    key = t[2]
                    for k in list(cv) + [None]:
                        s2 = s.fork()
                        if k is None:
                            for k2 in cv:
                                self.assume(("cmp", "==", key, const(k2)), False, s2)
                            s2.facts[("cmp", "in", key, t[3])] = False
                            self.emit(s2, fx, "CONSTMAP", test, obj=t[3], key=key, hit=False, how="in")
                            pol = t[1] == "not in"
                        else:
                            if self.truth(("cmp", "==", key, const(k)), s2) is False:
                                continue
                            self.assume(("cmp", "==", key, const(k)), True, s2)
                            s2.facts[("cmp", "in", key, t[3])] = True
                            self.emit(s2, fx, "CONSTMAP", test, obj=t[3], key=key, hit=True, kval=k, val=cv[k], how="in")
                            pol = t[1] == "in"
                        s2.conds = s2.conds + (Cond(t, pol, fx.func.file, test.lineno, text),)
                        yield "ok", pol, s2
                    continue
            if isinstance(t, tuple) and t[0] == "cmp" and t[1] in ("in", "not in") and isinstance(t[3], tuple) and t[3] and t[3][0] == "functable":
                # membership among the keys of a dispatch table: one of them, or none
                tab = self.functable(t[3])
                key = t[2]
                for k in list(tab) + [None]:
                    s2 = s.fork()
                    if k is None:
                        for k2 in tab:
                            self.assume(("cmp", "==", key, const(k2)), False, s2)
                        pol = t[1] == "not in"
                    else:
                        if self.truth(("cmp", "==", key, const(k)), s2) is False:
                            continue
                        self.assume(("cmp", "==", key, const(k)), True, s2)
                        for k2 in tab:
                            if k2 != k:
                                self.assume(("cmp", "==", key, const(k2)), False, s2)
                        pol = t[1] == "in"
                    s2.conds = s2.conds + (Cond(t, pol, fx.func.file, test.lineno, text),)
                    yield "ok", pol, s2
                continue
            if isinstance(t, tuple) and t[0] == "cmp" and t[1] in ("in", "not in") and isinstance(t[3], tuple) and t[3] and t[3][0] == "reg":
                # membership of a key in a registry: a lookup that hits or misses; after a hit the entry is known to be there
                reg, addr, key = t[3][1], t[3][2], t[2]
                if (reg, key) in s.hits:
                    yield "ok", t[1] == "in", s
                    continue
                for hit in (True, False):
                    s2 = s.fork()
                    pol = hit if t[1] == "in" else (not hit)
                    s2.conds = s2.conds + (Cond(t, pol, fx.func.file, test.lineno, text),)
                    self.assume(t, pol, s2)
                    self.emit(s2, fx, "LOOKUP", test, reg=reg, key=key, addr=addr, hit=hit, how="in")
                    if hit:
                        s2.hits.add((reg, key))
                    yield "ok", pol, s2
                continue
            if isinstance(t, tuple) and t[0] in ("boolop", "not") and not isinstance(test, (ast.BoolOp, ast.UnaryOp)):
                # a truth value put together elsewhere (the result of a helper: `return lo <= x < hi`): the path forks on its
                # parts as it would on the expression written in place, so that each side knows which part decided
                yield from self._branch_term(t, s, fx, test, text)
                continue
            if isinstance(t, tuple) and t[0] == "cmp" and t[1] in ("==", "!=") and all(
                    isinstance(x, tuple) and x and x[0] in ("nonnull", "not", "cmp", "boolop") for x in t[2:4]):
                # two truth values compared (noTopic != noMessage): the four combinations of what each of them says
                for r1, p1, s1 in self._branch_term(t[2], s, fx, test, text):
                    for r2, p2, s2 in self._branch_term(t[3], s1, fx, test, text):
                        yield "ok", ((p1 != p2) if t[1] == "!=" else (p1 == p2)), s2
                continue
            for pol in (True, False):
                s2 = s.fork()
                s2.conds = s2.conds + (Cond(t, pol, fx.func.file, test.lineno, text),)
                self.assume(t, pol, s2)
                yield "ok", pol, s2

    def _branch_term(self, t, st, fx, node, text):
        """Outcomes ('ok', polarity, state) of a compound truth term, with short-circuit order."""
        if isinstance(t, tuple) and t[0] == "not":
            for r, pol, s in self._branch_term(t[1], st, fx, node, text):
                yield r, (not pol), s
            return
        if isinstance(t, tuple) and t[0] == "boolop":
            is_and = t[1] == "And"

            def go(i, s):
                if i == len(t[2]):
                    yield "ok", is_and, s
                    return
                for r, pol, s1 in self._branch_term(t[2][i], s, fx, node, text):
                    if pol != is_and:
                        yield "ok", pol, s1
                    else:
                        yield from go(i + 1, s1)
            yield from go(0, st)
            return
        k = self.truth(t, st)
        if k is not None:
            yield "ok", k, st
            return
        for pol in (True, False):
            s2 = st.fork()
            s2.conds = s2.conds + (Cond(t, pol, fx.func.file, getattr(node, "lineno", 0), show(t)),)
            self.assume(t, pol, s2)
            yield "ok", pol, s2
