"""Statement rules of the path interpreter: assignments, branches, loops, try."""
import ast

from .model import AnalysisError, ClassInfo, BUILTIN_EXC
from .terms import SELF, FAC, NONE, Path, Cond, const, is_const, mentions, show



def _bound_in(fnode):
    """Names a function binds itself (parameters, assignment / loop / with / except targets): not free variables."""
    out = getattr(fnode, "_bound_names", None)
    if out is None:
        out = {a.arg for a in fnode.args.args + fnode.args.kwonlyargs + fnode.args.posonlyargs}
        if fnode.args.vararg:
            out.add(fnode.args.vararg.arg)
        if fnode.args.kwarg:
            out.add(fnode.args.kwarg.arg)
        nonlocal_ = set()
        for x in ast.walk(fnode):
            if isinstance(x, ast.Name) and isinstance(x.ctx, ast.Store):
                out.add(x.id)
            elif isinstance(x, (ast.Nonlocal, ast.Global)):
                nonlocal_ |= set(x.names)
        out -= nonlocal_
        fnode._bound_names = out
    return out

class StmtMixin:

    # ---- assignment ------------------------------------------------------
    def s_Assign(self, n, st, fx):
        if isinstance(n.value, ast.IfExp) and any(isinstance(t, ast.Attribute) and t.attr == "state" for t in n.targets):
            # self.state = A if c else B: the state machine moves differently on the two sides, so the path forks
            a = ast.copy_location(ast.Assign(targets=n.targets, value=n.value.body, lineno=n.lineno), n)
            b = ast.copy_location(ast.Assign(targets=n.targets, value=n.value.orelse, lineno=n.lineno), n)
            alt = ast.copy_location(ast.If(test=n.value.test, body=[a], orelse=[b]), n)
            ast.fix_missing_locations(alt)
            yield from self.stmt(alt, st, fx)
            return
        v0 = n.value
        if isinstance(v0, ast.Call) and isinstance(v0.func, ast.Name) and v0.func.id == "next" and len(v0.args) == 2 and not v0.keywords \
                and isinstance(v0.args[0], ast.GeneratorExp) and len(v0.args[0].generators) == 1 \
                and all(isinstance(x, (ast.Name, ast.Tuple)) for x in ast.walk(v0.args[0].generators[0].target) if isinstance(x, ast.expr)
                        and not isinstance(x, ast.expr_context)) and "next" not in st.env:
            # x = next((E for v in IT if C), D)  ==  for v in IT: if C: x = E; break   else: x = D      (v renamed: it is the
            # generator's own variable)
            g = v0.args[0].generators[0]
            own_names = {x.id for x in ast.walk(g.target) if isinstance(x, ast.Name)}

            class Ren(ast.NodeTransformer):
                def visit_Name(self, node):
                    return ast.copy_location(ast.Name(id="__next_%s_%d" % (node.id, n.lineno), ctx=node.ctx), node) if node.id in own_names else node
            import copy as _copy
            elt = Ren().visit(_copy.deepcopy(v0.args[0].elt))
            conds = [Ren().visit(_copy.deepcopy(c)) for c in g.ifs]
            new_target = Ren().visit(_copy.deepcopy(g.target))
            hit = [ast.Assign(targets=n.targets, value=elt, lineno=n.lineno), ast.Break()]
            body = hit
            for c in reversed(conds):
                body = [ast.If(test=c, body=body, orelse=[])]
            loop = ast.For(target=new_target, iter=g.iter, body=body,
                           orelse=[ast.Assign(targets=n.targets, value=v0.args[1], lineno=n.lineno)])
            ast.copy_location(loop, n)
            for x in ast.walk(loop):
                if not hasattr(x, "lineno"):
                    ast.copy_location(x, n)
            ast.fix_missing_locations(loop)
            yield from self.stmt(loop, st, fx)
            return
        for r, val, s in self.ev(n.value, st, fx):
            if r == "raise":
                yield ("raise", val), s
                continue
            yield from self._assign_all(n.targets, val, s, fx, n)

    def s_AnnAssign(self, n, st, fx):
        if n.value is None:
            yield None, st
            return
        for r, val, s in self.ev(n.value, st, fx):
            if r == "raise":
                yield ("raise", val), s
                continue
            yield from self._assign_all([n.target], val, s, fx, n)

    def _assign_all(self, targets, val, st, fx, node):
        if not targets:
            yield None, st
            return
        for exit_, s in self.assign(targets[0], val, st, fx, node):
            if exit_ is not None:
                yield exit_, s
            else:
                yield from self._assign_all(targets[1:], val, s, fx, node)

    def assign(self, t, val, st, fx, node):
        if isinstance(t, ast.Name):
            st.env[t.id] = val
            # closures see the enclosing frame's variables by reference: a local bound after the inner function was defined
            # (def expired(): ping.alarm = None ... ; ping = self._pingReq) is what the closure reads when it runs
            for v in list(st.env.values()):
                if isinstance(v, tuple) and len(v) == 3 and v[0] == "closure" and v[2] in getattr(self, "_closure_env", {}):
                    cenv, _cs, cfi = self._closure_env[v[2]]
                    if cfi.parent is fx.func and t.id not in _bound_in(cfi.node):
                        cenv[t.id] = val
            yield None, st
        elif isinstance(t, (ast.Tuple, ast.List)):
            if isinstance(val, tuple) and val[0] in ("tuple", "list") and len(val[1]) == len(t.elts):
                parts = list(val[1])
            elif is_const(val) and isinstance(val[1], (tuple, list)) and len(val[1]) == len(t.elts):
                parts = [const(x) for x in val[1]]
            else:
                parts = [("unk", "unpack:%s" % ast.unparse(e)) if not (isinstance(val, tuple) and val[0] == "call")
                         else ("item", val, i) for i, e in enumerate(t.elts)]
            def go(i, s):
                if i == len(t.elts):
                    yield None, s
                    return
                for exit_, s2 in self.assign(t.elts[i], parts[i], s, fx, node):
                    if exit_ is not None:
                        yield exit_, s2
                    else:
                        yield from go(i + 1, s2)
            yield from go(0, st)
        elif isinstance(t, ast.Attribute):
            for r, obj, s in self.ev(t.value, st, fx):
                if r == "raise":
                    yield ("raise", obj), s
                    continue
                self.store_attr(obj, t.attr, val, s, fx, node)
                yield None, s
        elif isinstance(t, ast.Subscript):
            for r, base, s in self.ev(t.value, st, fx):
                if r == "raise":
                    yield ("raise", base), s
                    continue
                for r2, key, s2 in self.ev(t.slice, s, fx):
                    if r2 == "raise":
                        yield ("raise", key), s2
                        continue
                    self.store_sub(base, key, val, s2, fx, node, t)
                    yield None, s2
        else:
            raise AnalysisError("unsupported assignment target at %s:%d" % (fx.func.file, node.lineno))

    def store_attr(self, obj, field, val, st, fx, node):
        prev = st.heap.get((obj, field), ("attr", obj, field))
        if obj == SELF and field == "state":
            slot = None
            for (o, f), v in st.heap.items():
                if o == SELF and v == val and f in self.state_slots:
                    slot = f
            if slot is None and isinstance(val, tuple) and val[0] == "attr" and val[1] == SELF:
                slot = val[2]
            self.emit(st, fx, "STATE", node, slot=slot, val=val)
        else:
            self.emit(st, fx, "SETATTR", node, obj=obj, field=field, val=val, prev=prev)
        st.heap[(obj, field)] = val
        if isinstance(val, tuple) and val and val[0] in ("dfr", "timer", "new"):
            # an object a closure made on this path has captured under a local name is stored into a field of another object the
            # closure captured (d = Deferred(); def expired(): d.errback(..) ...; request.deferred = d): in the callback the local
            # stands for that field
            for cid, (cenv, _cself, cfi) in list(getattr(self, "_closure_env", {}).items()):
                if cfi.parent is not fx.func and cfi.parent is not None and cfi.parent.qual != fx.func.qual:
                    continue
                for k, v in cenv.items():
                    if v == val and isinstance(k, str):
                        for o, ov in cenv.items():
                            if o != k and ov == obj and isinstance(o, str):
                                self._closure_alias = getattr(self, "_closure_alias", {})
                                self._closure_alias.setdefault(cfi.qual, {})[k] = (o, field)
        # facts about the overwritten location are gone
        loc = ("attr", obj, field)
        for k in [k for k in st.facts if mentions(k, loc)]:
            del st.facts[k]

    def store_sub(self, base, key, val, st, fx, node, tnode):
        if isinstance(base, tuple) and base[0] == "reg":
            self.emit(st, fx, "REG", node, reg=base[1], key=key, val=val, addr=base[2], how="setitem",
                      valkey=st.heap.get((val, self.elem_key_field), ("attr", val, self.elem_key_field)))
            st.hits.add((base[1], key))
            st.hits.discard(("gone", base[1], key))
            self._drop_reg_facts(st, base[1])
        elif isinstance(base, tuple) and base[0] == "regtop":
            self.emit(st, fx, "REGTOP", node, reg=base[1], key=key, val=val)
        else:
            self.emit(st, fx, "SETITEM", node, base=base, key=key, val=val, op=None)

    def s_AugAssign(self, n, st, fx):
        opname = type(n.op).__name__
        for r, val, s in self.ev(n.value, st, fx):
            if r == "raise":
                yield ("raise", val), s
                continue
            t = n.target
            if isinstance(t, ast.Name):
                for r0, old, s0 in self.ev_name(t, s, fx):
                    if r0 == "raise":
                        yield ("raise", old), s0
                        continue
                    if isinstance(old, tuple) and old[:1] == ("accum",) and opname in ("BitOr", "Sub", "BitAnd"):
                        # in-place set operators keep the collection's identity
                        self.emit(s0, fx, "ACCUM", n, acc=old, src=val,
                                  how={"BitOr": "update", "Sub": "difference_update", "BitAnd": "intersection_update"}[opname])
                        yield None, s0
                        continue
                    s0.env[t.id] = self.binop(opname, old, val)
                    yield None, s0
            elif isinstance(t, ast.Attribute):
                for r1, obj, s1 in self.ev(t.value, s, fx):
                    if r1 == "raise":
                        yield ("raise", obj), s1
                        continue
                    old = s1.heap.get((obj, t.attr), ("attr", obj, t.attr))
                    self.store_attr(obj, t.attr, self.binop(opname, old, val), s1, fx, n)
                    yield None, s1
            elif isinstance(t, ast.Subscript):
                for r1, base, s1 in self.ev(t.value, s, fx):
                    if r1 == "raise":
                        yield ("raise", base), s1
                        continue
                    for r2, key, s2 in self.ev(t.slice, s1, fx):
                        if r2 == "raise":
                            yield ("raise", key), s2
                            continue
                        self.emit(s2, fx, "SETITEM", n, base=base, key=key, val=val, op=opname)
                        yield None, s2
            else:
                raise AnalysisError("unsupported augmented assignment at %s:%d" % (fx.func.file, n.lineno))

    # ---- branches --------------------------------------------------------
    def s_If(self, n, st, fx):
        for r, pol, s in self.branch(n.test, st, fx):
            if r == "raise":
                yield ("raise", pol), s
                continue
            yield from self.block(n.body if pol else n.orelse, s, fx)

    # ---- loops -----------------------------------------------------------
    def _assigned_in(self, stmts):
        names, fields = set(), set()
        for st_ in stmts:
            for x in ast.walk(st_):
                if isinstance(x, ast.Name) and isinstance(x.ctx, ast.Store):
                    names.add(x.id)
                elif isinstance(x, ast.Attribute) and isinstance(x.ctx, ast.Store):
                    fields.add(x.attr)
        return names, fields

    def _loop_region(self, n, st, fx, kind, info, bind):
        """Common part of for/while.  The body is analysed from a state that stands for *any* iteration:
        everything the body (or what it inlines) may change is forgotten first (small fixpoint)."""
        loop_id = st.uid()
        names, _ = self._assigned_in(n.body)
        touched_heap, touched_regs = set(), set()
        frozen_locs = set()       # fields of self / the factory the body assigns (whether or not anything is known about them)
        body_paths = []
        extra = {}
        mirrors = {}          # local name -> field of self whose current value it holds at the head of every iteration
        for attempt in range(8):
            base = st.fork()
            base.events = []
            for nm in names:
                base.env[nm] = ("attr", SELF, mirrors[nm]) if nm in mirrors else ("unk", "%s@loop%d" % (nm, loop_id))
            for k in touched_heap:
                base.heap.pop(k, None)
                for fk in [fk for fk in base.facts if mentions(fk, ("attr",) + k)]:
                    del base.facts[fk]
            # a local bound before the loop to a field the body re-assigns keeps the value it had then, not the current one
            for k in touched_heap | frozen_locs:
                for nm, v in list(base.env.items()):
                    if nm not in names and isinstance(v, tuple) and v[:1] != ("old",) and mentions(v, ("attr",) + k):
                        base.env[nm] = ("old", v, loop_id)
            for rg in touched_regs:
                base.hits = {h for h in base.hits if h[0] != rg and not (h[0] == "gone" and h[1] == rg)}
                self._drop_reg_facts(base, rg)
            extra = bind(base, loop_id) or {}
            body_paths = []
            for exit_, s in self.block(n.body, base, fx):
                body_paths.append(Path(s.events, exit_, s.conds, s))
            th, tr = set(), set()
            for p in body_paths:
                for e in p.walk():
                    if e.kind in ("REG", "UNREG"):
                        tr.add(e.a["reg"])
                    elif e.kind == "SETATTR":
                        th.add((e.a["obj"], e.a["field"]))
                    elif e.kind == "STATE":
                        th.add((SELF, "state"))
            fl = {k for k in th if k[0] in (SELF, FAC)}
            th = {k for k in th if k in st.heap or any(mentions(fk, ("attr",) + k) for fk in st.facts)}
            # a local that names the current value of a field of self - bound to it before the loop and again, after whatever the
            # iteration stored into the field, on every path that goes round (buf = self._buffer ... self._buffer = buf = buf[n:]):
            # at the head of an iteration it is that field, not an unknown
            new_mirrors = {}
            for nm in names:
                pre = st.env.get(nm)
                for (o_, f_) in [k for k in fl if k[0] == SELF]:
                    cur0 = st.heap.get((SELF, f_), ("attr", SELF, f_))
                    if pre is None or pre not in (cur0, ("attr", SELF, f_)):
                        continue
                    going = [p_ for p_ in body_paths if p_.exit is None or p_.exit[0] == "continue"]
                    if going and all(p_.st is not None and p_.st.env.get(nm) == p_.st.heap.get((SELF, f_), ("attr", SELF, f_)) for p_ in going):
                        new_mirrors[nm] = f_
            if th <= touched_heap and tr <= touched_regs and fl <= frozen_locs and new_mirrors == mirrors:
                break
            mirrors = new_mirrors
            touched_heap |= th
            touched_regs |= tr
            frozen_locs |= fl
        else:
            raise AnalysisError("loop at %s:%d does not stabilise" % (fx.func.file, n.lineno))
        info = dict(info)
        info.update(extra)
        info["pre"] = {nm: st.env.get(nm) for nm in names}
        self.emit(st, fx, "LOOP", n, loop=loop_id, lkind=kind, body=body_paths, **info)
        for p in body_paths:
            if p.exit is not None and p.exit[0] in ("return", "raise"):
                yield p.exit, st.fork()
        # a name the loop binds for the first time is bound afterwards only if the body ran: a for loop may run zero times (its
        # iterable may be empty), so reading such a name after the loop is an UnboundLocalError on that history
        may_skip = isinstance(n, ast.For)
        def unbound(nm):
            v0 = st.env.get(nm)
            return nm not in st.env or (isinstance(v0, tuple) and v0[:1] == ("mu",))
        unbound_before = {nm for nm in names if unbound(nm)}
        for nm in names:
            v = ("attr", SELF, mirrors[nm]) if nm in mirrors else ("unk", "%s@loop%d" % (nm, loop_id))
            st.env[nm] = ("mu", v) if (may_skip and nm in unbound_before) else v
        target_names = []
        if isinstance(n, ast.For):
            # the loop variable stays bound to the last element after the loop
            for x in ast.walk(n.target):
                if isinstance(x, ast.Name) and x.id not in names:
                    v = ("unk", "%s@loop%d" % (x.id, loop_id))
                    target_names.append(x.id)
                    st.env[x.id] = ("mu", v) if unbound(x.id) else v
        for k in touched_heap:
            st.heap.pop(k, None)
            for fk in [fk for fk in st.facts if mentions(fk, ("attr",) + k)]:
                del st.facts[fk]
        for k in touched_heap | frozen_locs:
            for nm, v in list(st.env.items()):
                if nm not in names and isinstance(v, tuple) and v[:1] != ("old",) and mentions(v, ("attr",) + k):
                    st.env[nm] = ("old", v, loop_id)
        for rg in touched_regs:
            st.hits = {h for h in st.hits if h[0] != rg and not (h[0] == "gone" and h[1] == rg)}
            self._drop_reg_facts(st, rg)
        if n.orelse:
            # the else clause runs when the loop ends without break; a break skips it
            breaks = [p for p in body_paths if p.exit is not None and p.exit[0] == "break" and p.st is not None]
            seen_b = set()
            for p in breaks[:8]:
                # left by break: the body was running, and what it bound on its way out is what the names hold afterwards (the
                # search idiom: for x in xs: if test(x): found = x; break  else: found = None)
                sb = st.fork()
                for nm in list(target_names) + list(names):
                    v = sb.env.get(nm)
                    if isinstance(v, tuple) and v[:1] == ("mu",):
                        sb.env[nm] = v[1]
                    if nm in p.st.env:
                        sb.env[nm] = p.st.env[nm]
                own = tuple(p.conds[len(st.conds):])
                sb.conds = sb.conds + own
                for k2, v2 in p.st.facts.items():
                    if k2 not in sb.facts:
                        sb.facts[k2] = v2
                key = (tuple(sorted((nm, repr(sb.env.get(nm))) for nm in list(target_names) + list(names))), tuple(repr(c) for c in own))
                if key in seen_b:
                    continue
                seen_b.add(key)
                yield None, sb
            if len(breaks) > 8:
                sb = st.fork()
                for nm in list(target_names) + list(names):
                    v = sb.env.get(nm)
                    if isinstance(v, tuple) and v[:1] == ("mu",):
                        sb.env[nm] = v[1]
                yield None, sb
            yield from self.block(n.orelse, st, fx)
        else:
            yield None, st

    def _generator_target(self, call, st, fx):
        """(FuncInfo, receiver term) when `call` invokes a generator function of the repository."""
        if not isinstance(call, ast.Call) or any(isinstance(a, ast.Starred) for a in call.args):
            return None
        f = call.func
        if isinstance(f, ast.Attribute) and isinstance(f.value, ast.Name) and f.value.id == "self" and fx.cls is not None:
            cls = self.class_of(fx.selfterm) or fx.cls
            m = self.prog.lookup_method(cls, f.attr)
            if m is not None and m.is_generator:
                return m, fx.selfterm
        if isinstance(f, ast.Name) and f.id not in st.env:
            r = self.prog.resolve(fx.module, f.id)
            if r and r[0] == "func" and r[1].is_generator:
                return r[1], None
        return None

    def _for_generator(self, n, gen, selfterm, st, fx, made=None):
        """for x in gen(..): BODY - the generator's body is walked with BODY run at each yield (lazy, interleaved, as at run time).
        `made`: (args, keyword bindings) of a generator object created earlier (handed in as an argument) and consumed here."""
        func = gen
        call = n.iter
        if func.qual in st.frames or len(st.frames) >= self.inline_depth:
            raise AnalysisError("generator %s: recursion / inlining bound at %s:%d" % (func.qual, fx.func.file, n.lineno))
        for r, args, s in ([("ok", list(made[0]), st)] if made is not None else self.ev_list(list(call.args), st, fx)):
            if r == "raise":
                yield ("raise", args), s
                continue
            params = list(func.params)
            binds = {}
            if func.cls is not None and not func.is_static and params and params[0] == "self":
                binds["self"] = selfterm
                params = params[1:]
            for p, a in zip(params, args):
                binds[p] = a
            if made is not None:
                binds.update(dict(made[1]))
            for kwd in (call.keywords if made is None else []):
                for r2, v, s in self.ev(kwd.value, s, fx):
                    binds[kwd.arg] = v
                    break
            for name, dflt in func.defaults.items():
                if name not in binds:
                    ok, v = self.prog.try_fold(dflt, func.module)
                    binds[name] = const(v) if ok else ("unk", "default:" + name)
            self.emit(s, fx, "CALL", n, func=func.qual, recv=selfterm, args=tuple(args), kw=())
            from .interp import Fx
            nfx = Fx(func, selfterm if selfterm is not None else fx.selfterm, None)
            caller = (s.env, s.stack, s.frames)
            s.gen_callers = s.gen_callers + (caller,)
            s.stack = s.stack + ((fx.func.file, getattr(n, "lineno", 0), func.qual),)
            s.frames = s.frames + (func.qual,)
            s.env = dict(binds)

            def on_yield(val, gs, n=n, fx=fx):
                gen_ctx = (dict(gs.env), gs.stack, gs.frames)
                cenv, cstack, cframes = gs.gen_callers[-1]
                gs.env, gs.stack, gs.frames = dict(cenv), cstack, cframes
                outer_callers = gs.gen_callers[:-1]
                gs.gen_callers = outer_callers

                def back(s3, exit_for_gen):
                    s3.gen_callers = outer_callers + ((s3.env, cstack, cframes),)
                    s3.env, s3.stack, s3.frames = dict(gen_ctx[0]), gen_ctx[1], gen_ctx[2]
                    return exit_for_gen, s3
                for ex, s2 in self.assign(n.target, val, gs, fx, n):
                    if ex is not None:
                        s2.consumer_exit = ex
                        yield back(s2, ("return", NONE))
                        continue
                    for ex2, s3 in self.block(n.body, s2, fx):
                        if ex2 is None or ex2[0] == "continue":
                            yield back(s3, None)
                        else:
                            # break / return / raise of the loop body: the generator is abandoned.  When the body is itself a `yield` of an
                            # enclosing generator whose consumer left, it is that consumer's exit that travels outwards
                            if getattr(s3, "consumer_exit", None) is None:
                                s3.consumer_exit = ex2
                            yield back(s3, ("return", NONE))
            nfx.on_yield = on_yield
            for exit_, s2 in self.block(func.node.body, s, nfx):
                cenv, cstack, cframes = s2.gen_callers[-1]
                s2.gen_callers = s2.gen_callers[:-1]
                s2.env, s2.stack, s2.frames = dict(cenv), cstack, cframes
                ce, s2.consumer_exit = s2.consumer_exit, None
                if ce is not None:
                    yield (None if ce[0] == "break" else ce), s2
                elif exit_ is None or exit_[0] == "return":
                    yield from (self.block(n.orelse, s2, fx) if n.orelse else [(None, s2)])
                else:
                    yield exit_, s2

    def _desugared_for(self, n, st, fx):
        """Equivalent statement for some iterables: itertools.chain(a, b) -> one loop after the other; a generator expression or
        list comprehension -> nested for/if; iter(f, sentinel) -> while True: x = f(); if x is sentinel: break."""
        it = n.iter
        if isinstance(it, ast.Name):
            # name = (generator expression) ... for x in name: a generator runs while it is iterated, so the loop is the loop over
            # the expression itself - provided this is the only use of the name and nothing it reads is rebound in between
            uses = [x for x in ast.walk(fx.func.node) if isinstance(x, ast.Name) and x.id == it.id]
            asg = [x for x in ast.walk(fx.func.node) if isinstance(x, ast.Assign) and len(x.targets) == 1 and isinstance(x.targets[0], ast.Name)
                   and x.targets[0].id == it.id]
            lazy = len(asg) == 1 and (isinstance(asg[0].value, ast.GeneratorExp) or (
                isinstance(asg[0].value, ast.Call) and not asg[0].value.keywords
                and (asg[0].value.func.attr if isinstance(asg[0].value.func, ast.Attribute) else getattr(asg[0].value.func, "id", None)) == "chain"))
            if len(uses) == 2 and lazy and it.id not in fx.func.params:
                read = {x.id for x in ast.walk(asg[0].value) if isinstance(x, ast.Name) and isinstance(x.ctx, ast.Load)}
                lo, hi = asg[0].lineno, n.lineno
                rebound = any(isinstance(x, ast.Name) and isinstance(x.ctx, ast.Store) and x.id in read and lo < getattr(x, "lineno", 0) < hi
                              for x in ast.walk(fx.func.node))
                if not rebound and lo < hi:
                    n2 = ast.copy_location(ast.For(target=n.target, iter=asg[0].value, body=n.body, orelse=n.orelse), n)
                    return self._desugared_for(n2, st, fx)
        if isinstance(it, ast.Name) and not n.orelse and it.id not in fx.func.params:
            # work = [E1 for ..]; work += [E2 for ..]; ...; for x in work: BODY  - a work list written out and then walked, the name
            # used for nothing else: the loops over the comprehensions, one after the other
            uses = [x for x in ast.walk(fx.func.node) if isinstance(x, ast.Name) and x.id == it.id]
            defs = [x for x in ast.walk(fx.func.node) if (isinstance(x, ast.Assign) and len(x.targets) == 1 and isinstance(x.targets[0], ast.Name)
                                                          and x.targets[0].id == it.id)
                    or (isinstance(x, ast.AugAssign) and isinstance(x.op, ast.Add) and isinstance(x.target, ast.Name) and x.target.id == it.id)]
            defs.sort(key=lambda x: x.lineno)
            if defs and len(uses) == len(defs) + 1 and isinstance(defs[0], ast.Assign) and all(isinstance(x, ast.AugAssign) for x in defs[1:]) \
                    and all(isinstance(x.value, ast.ListComp) for x in defs) and all(x.lineno < n.lineno for x in defs) \
                    and not any(isinstance(x, ast.Break) for b in n.body for x in ast.walk(b)):
                out = []
                for d in defs:
                    f2 = ast.copy_location(ast.For(target=n.target, iter=d.value, body=n.body, orelse=[]), n)
                    out.extend(self._desugared_for(f2, st, fx) or [f2])
                return out
        if isinstance(it, ast.Call) and not it.keywords and isinstance(it.func, ast.Attribute) and isinstance(it.func.value, ast.Name) \
                and it.func.value.id == "self" and fx.cls is not None \
                and all(not any(isinstance(y, (ast.Call, ast.Lambda, ast.NamedExpr, ast.Starred, ast.Await)) for y in ast.walk(a_)) for a_ in it.args):
            # for x in self._helper(): where the helper only names a few things and returns an iterable expression (a chain of the windows'
            # values, a generator expression over a tuple of registries): the loop over that expression, the helper's locals renamed
            cls = self.class_of(fx.selfterm) or fx.cls
            m = self.prog.lookup_method(cls, it.func.attr)
            hparams = [] if m is None else (list(m.params) if m.is_static else list(m.params[1:]))
            if m is not None and not m.is_generator and m.module is fx.func.module and not m.is_property and not getattr(m, "is_classmethod", False) \
                    and (m.is_static or m.params[:1] == ["self"]) and len(hparams) == len(it.args) and not m.defaults:
                hb = [x for x in m.node.body if not (isinstance(x, ast.Expr) and isinstance(x.value, ast.Constant))]

                def plain(v):
                    return not any(isinstance(y, (ast.Call, ast.Lambda, ast.GeneratorExp, ast.ListComp, ast.NamedExpr, ast.Await, ast.Yield)) for y in ast.walk(v))
                if hb and isinstance(hb[-1], ast.Return) and hb[-1].value is not None \
                        and isinstance(hb[-1].value, (ast.Call, ast.GeneratorExp, ast.Tuple, ast.List, ast.ListComp)) \
                        and all(isinstance(x, ast.Assign) and len(x.targets) == 1 and plain(x.value)
                                and (isinstance(x.targets[0], ast.Name) or (isinstance(x.targets[0], ast.Tuple) and all(isinstance(e, ast.Name) for e in x.targets[0].elts)))
                                for x in hb[:-1]) \
                        and not (isinstance(hb[-1].value, ast.Call) and not (
                            (hb[-1].value.func.attr if isinstance(hb[-1].value.func, ast.Attribute) else getattr(hb[-1].value.func, "id", None))
                            in ("chain", "from_iterable", "iter", "reversed", "list", "tuple"))):
                    import copy as _copy
                    names = {y.id for x in hb for y in ast.walk(x) if isinstance(y, ast.Name) and isinstance(y.ctx, ast.Store)} | set(hparams)
                    names |= {g.id for y in ast.walk(hb[-1].value) if isinstance(y, ast.comprehension) for g in ast.walk(y.target) if isinstance(g, ast.Name)}

                    class Ren(ast.NodeTransformer):
                        def visit_Name(self_, y):
                            if y.id in names:
                                return ast.copy_location(ast.Name(id="__%s_%s" % (m.name, y.id), ctx=y.ctx), y)
                            return y
                    # (the helper's parameters: locals of the same renamed kind, bound to the argument expressions - plain reads - first)
                    pre = [ast.copy_location(ast.Assign(targets=[ast.Name(id="__%s_%s" % (m.name, p_), ctx=ast.Store())], value=a_), n)
                           for p_, a_ in zip(hparams, it.args)]
                    pre += [ast.copy_location(Ren().visit(_copy.deepcopy(x)), n) for x in hb[:-1]]
                    f2 = ast.copy_location(ast.For(target=n.target, iter=Ren().visit(_copy.deepcopy(hb[-1].value)), body=n.body, orelse=n.orelse), n)
                    for x in pre + [f2]:
                        ast.fix_missing_locations(x)
                    return pre + (self._desugared_for(f2, st, fx) or [f2])
        if isinstance(it, ast.Call) and not it.keywords and len(it.args) == 1 and isinstance(it.func, ast.Attribute) and it.func.attr == "from_iterable" \
                and not n.orelse and not any(isinstance(x, ast.Break) for b in n.body for x in ast.walk(b)):
            # chain.from_iterable(ITS): for each iterable of ITS in turn, its elements
            a = it.args[0]
            if isinstance(a, (ast.GeneratorExp, ast.ListComp)) and len(a.generators) == 1:
                g = a.generators[0]
                inner = ast.For(target=n.target, iter=a.elt, body=n.body, orelse=[])
                body = [inner]
                for c in reversed(g.ifs):
                    body = [ast.If(test=c, body=body, orelse=[])]
                outer = ast.For(target=g.target, iter=g.iter, body=body, orelse=[])
            else:
                v = "__chain_part_%d" % n.lineno
                inner = ast.For(target=n.target, iter=ast.Name(id=v, ctx=ast.Load()), body=n.body, orelse=[])
                outer = ast.For(target=ast.Name(id=v, ctx=ast.Store()), iter=a, body=[inner], orelse=[])
            ast.copy_location(outer, n)
            for x in ast.walk(outer):
                if not hasattr(x, "lineno"):
                    ast.copy_location(x, n)
            ast.fix_missing_locations(outer)
            return [outer]
        if isinstance(it, ast.Call) and not it.keywords and len(it.args) == 2 and not n.orelse \
                and (getattr(it.func, "id", None) == "islice" or getattr(it.func, "attr", None) == "islice") \
                and isinstance(it.args[0], ast.Call) and isinstance(it.args[0].func, ast.Name) and it.args[0].func.id == "iter" \
                and len(it.args[0].args) == 2 and not it.args[0].keywords and isinstance(n.target, ast.Name):
            # for x in islice(iter(f, sentinel), N): BODY   ->   for _ in range(N): x = f(); if x is/== sentinel: break; BODY
            f_, sent = it.args[0].args
            cnt = "__islice_turn_%d" % n.lineno
            call = ast.Call(func=f_, args=[], keywords=[])
            asg = ast.Assign(targets=[ast.Name(id=n.target.id, ctx=ast.Store())], value=call)
            test = ast.Compare(left=ast.Name(id=n.target.id, ctx=ast.Load()),
                               ops=[ast.Is() if isinstance(sent, ast.Constant) and sent.value is None else ast.Eq()], comparators=[sent])
            brk = ast.If(test=test, body=[ast.Break()], orelse=[])
            rng = ast.Call(func=ast.Name(id="range", ctx=ast.Load()), args=[it.args[1]], keywords=[])
            f2 = ast.For(target=ast.Name(id=cnt, ctx=ast.Store()), iter=rng, body=[asg, brk] + list(n.body), orelse=[])
            ast.copy_location(f2, n)
            for x in ast.walk(f2):
                if not hasattr(x, "lineno"):
                    ast.copy_location(x, n)
            ast.fix_missing_locations(f2)
            return [f2]
        if isinstance(it, ast.Call) and not it.keywords and len(it.args) == 2 and not n.orelse \
                and (getattr(it.func, "id", None) == "islice" or getattr(it.func, "attr", None) == "islice"):
            # for x in islice(XS, N): BODY   ->   k = 0; for x in XS: if k >= N: break; k += 1; BODY      (at most N elements of XS)
            cnt = "__islice_count_%d" % n.lineno
            init = ast.Assign(targets=[ast.Name(id=cnt, ctx=ast.Store())], value=ast.Constant(value=0))
            stop = ast.If(test=ast.Compare(left=ast.Name(id=cnt, ctx=ast.Load()), ops=[ast.GtE()], comparators=[it.args[1]]), body=[ast.Break()], orelse=[])
            step = ast.AugAssign(target=ast.Name(id=cnt, ctx=ast.Store()), op=ast.Add(), value=ast.Constant(value=1))
            f2 = ast.For(target=n.target, iter=it.args[0], body=[stop, step] + list(n.body), orelse=[])
            for x in (init, f2):
                ast.copy_location(x, n)
                for y in ast.walk(x):
                    if not hasattr(y, "lineno"):
                        ast.copy_location(y, n)
                ast.fix_missing_locations(x)
            return [init] + (self._desugared_for(f2, st, fx) or [f2])
        if isinstance(it, ast.Call) and not it.keywords and not any(isinstance(a, ast.Starred) for a in it.args):
            nm = it.func.attr if isinstance(it.func, ast.Attribute) else (it.func.id if isinstance(it.func, ast.Name) else None)
            if nm == "chain" and it.args and not n.orelse and not any(isinstance(x, (ast.Break,)) for b in n.body for x in ast.walk(b)):
                out = []
                for a in it.args:
                    f2 = ast.For(target=n.target, iter=a, body=n.body, orelse=[], lineno=n.lineno, col_offset=n.col_offset)
                    out.append(ast.copy_location(f2, n))
                return out
            if nm == "iter" and isinstance(it.func, ast.Name) and len(it.args) == 2 and isinstance(n.target, ast.Name) and not n.orelse:
                call = ast.Call(func=it.args[0], args=[], keywords=[])
                asg = ast.Assign(targets=[ast.Name(id=n.target.id, ctx=ast.Store())], value=call, lineno=n.lineno)
                sent = it.args[1]
                test = ast.Compare(left=ast.Name(id=n.target.id, ctx=ast.Load()), ops=[ast.Is() if isinstance(sent, ast.Constant) and sent.value is None else ast.Eq()],
                                   comparators=[sent])
                brk = ast.If(test=test, body=[ast.Break()], orelse=[])
                w = ast.While(test=ast.Constant(value=True), body=[asg, brk] + list(n.body), orelse=[])
                for x in (asg, brk, w):
                    ast.copy_location(x, n)
                ast.fix_missing_locations(w)
                return [w]
        if isinstance(it, (ast.GeneratorExp, ast.ListComp)) and not n.orelse:
            # for x in (E for y in Y if c): BODY  ->  for y in Y: if c: x = E; BODY
            body = [ast.Assign(targets=[n.target], value=it.elt, lineno=n.lineno)] + list(n.body)
            for g in reversed(it.generators):
                for c in reversed(g.ifs):
                    body = [ast.If(test=c, body=body, orelse=[])]
                body = [ast.For(target=g.target, iter=g.iter, body=body, orelse=[])]
            for b in body:
                ast.copy_location(b, n)
                ast.fix_missing_locations(b)
            return body
        return None

    def s_For(self, n, st, fx):
        alt = self._desugared_for(n, st, fx)
        if alt is not None:
            yield from self.block(alt, st, fx)
            return
        gt = self._generator_target(n.iter, st, fx)
        if gt is not None:
            yield from self._for_generator(n, gt[0], gt[1], st, fx)
            return
        # literal tuple/list iteration is unrolled exactly
        if isinstance(n.iter, (ast.Tuple, ast.List)) and not n.orelse:
            def go(i, s):
                if i == len(n.iter.elts):
                    yield None, s
                    return
                for r, val, s1 in self.ev(n.iter.elts[i], s, fx):
                    if r == "raise":
                        yield ("raise", val), s1
                        continue
                    for ex, s2 in self.assign(n.target, val, s1, fx, n):
                        if ex is not None:
                            yield ex, s2
                            continue
                        for ex2, s3 in self.block(n.body, s2, fx):
                            if ex2 is None or ex2[0] == "continue":
                                yield from go(i + 1, s3)
                            elif ex2[0] == "break":
                                yield None, s3
                            else:
                                yield ex2, s3
            yield from go(0, st)
            return
        for r, it, s in self.ev(n.iter, st, fx):
            if r == "raise":
                yield ("raise", it), s
                continue
            from .terms import has_genobj
            if isinstance(it, tuple) and it[:1] == ("genobj",) and isinstance(n.iter, ast.Name) and len(it) >= 5:
                # a generator object received as an argument (validators handed to a "raise the first problem" helper): its body runs here,
                # lazily - provided this loop is its only consumer in the function and is not itself repeated
                nm = n.iter.id
                loads = [x for x in ast.walk(fx.func.node) if isinstance(x, ast.Name) and x.id == nm and isinstance(x.ctx, ast.Load)]
                nested = any(isinstance(l, (ast.For, ast.While)) and l is not n and any(y is n for y in ast.walk(l)) for l in ast.walk(fx.func.node))
                gfunc = self.prog.funcs.get(it[1])
                if len(loads) == 1 and not nested and gfunc is not None:
                    yield from self._for_generator(n, gfunc, it[3], s, fx, made=(it[2], it[4]))
                    continue
            if has_genobj(it):
                raise AnalysisError("loop over a value that holds a generator object (%s) at %s:%d: not read" % (show(it)[:80], fx.func.file, n.lineno))
            if is_const(it) and isinstance(it[1], (tuple, list)) and len(it[1]) <= 16:
                # a constant table (class-level tuple of rows): the same, with its rows as displays of constants
                def lift(v):
                    return ("tuple", tuple(lift(y) for y in v)) if isinstance(v, (tuple, list)) else const(v)
                it = lift(it[1])
            if isinstance(it, tuple) and it and it[0] == "constobj":
                try:
                    cv = self.constobj_value(it)
                except Exception:
                    cv = None
                if isinstance(cv, (list, tuple)) and len(cv) <= 16:
                    def lift2(v):
                        return ("tuple", tuple(lift2(y) for y in v)) if isinstance(v, (tuple, list)) else const(v)
                    it = lift2(cv)
            if isinstance(it, tuple) and it and it[0] in ("tuple", "list") and len(it) == 2 and isinstance(it[1], tuple) \
                    and len(it[1]) <= 16:
                # a display held in a local (a table of registries, of (registry, method) pairs ..): unrolled exactly
                elems = it[1]

                def go2(i, s0, elems=elems):
                    if i == len(elems):
                        # ended without break: the else clause, if any
                        yield from (self.block(n.orelse, s0, fx) if n.orelse else [(None, s0)])
                        return
                    for ex, s2 in self.assign(n.target, elems[i], s0, fx, n):
                        if ex is not None:
                            yield ex, s2
                            continue
                        for ex2, s3 in self.block(n.body, s2, fx):
                            if ex2 is None or ex2[0] == "continue":
                                yield from go2(i + 1, s3)
                            elif ex2[0] == "break":
                                yield None, s3
                            else:
                                yield ex2, s3
                yield from go2(0, s)
                continue

            def bind(bs, loop_id, it=it):
                val = self._iter_elem(it, loop_id)
                if isinstance(val, tuple) and val[:1] == ("unk",) and isinstance(n.target, ast.Name):
                    val = ("unk", "%s@loop%d" % (n.target.id, loop_id))      # the name it keeps after the loop
                for _ in self.assign(n.target, val, bs, fx, n):
                    pass
                if isinstance(it, tuple) and it[:2] == ("call", ("builtin", "range")) and 1 <= len(it[2]) <= 2 and isinstance(n.target, ast.Name):
                    # for i in range([a,] b): inside the body a <= i < b
                    lo = it[2][0] if len(it[2]) == 2 else ("const", 0)
                    hi = it[2][-1]
                    for t in (("cmp", "<", val, hi), ("cmp", ">=", val, lo)):
                        bs.conds = bs.conds + (Cond(t, True, fx.func.file, n.lineno, "%s in %s" % (n.target.id, ast.unparse(n.iter))),)
                        self.assume(t, True, bs)
                return None
            yield from self._loop_region(n, s, fx, "for", {"iter": it, "target": ast.unparse(n.target)}, bind)

    def _iter_elem(self, it, loop_id):
        """Abstract element of an iterable term."""
        def regof(t):
            return t if isinstance(t, tuple) and t[0] == "reg" else None
        if isinstance(it, tuple):
            if it[0] == "call" and isinstance(it[1], tuple):
                f = it[1]
                if f[0] == "attr" and isinstance(f[1], tuple) and f[1][:1] == ("regtop",) and f[2] in ("items", "values", "keys"):
                    # iterating a whole factory registry: the per-address containers, for any address
                    key = ("anyaddr", loop_id)
                    cont = ("reg", f[1][1], key)
                    return {"items": ("tuple", (key, cont)), "values": cont, "keys": key}[f[2]]
                if f[0] == "attr" and regof(f[1]) and f[2] in ("items", "values", "keys"):
                    rg = f[1]
                    key = ("keyof", rg[1], loop_id)
                    el = ("elem", rg[1], key)
                    return {"items": ("tuple", (key, el)), "values": el, "keys": key}[f[2]]
                if f[0] == "builtin" and f[1] in ("list", "tuple", "sorted", "reversed", "iter", "set") and it[2]:
                    inner = self._iter_elem(it[2][0], loop_id)
                    return inner
            if it[0] == "reg" and it[1] in getattr(self, "seq_registries", ()):
                return ("elem", it[1], ("keyof", it[1], loop_id))      # iterating a deque of requests yields the requests
            if it[0] == "reg":
                return ("keyof", it[1], loop_id)
            if it[0] in ("list", "tuple") and len(it[1]) == 1:
                return it[1][0]
        return ("unk", "iter%d" % loop_id)

    def s_While(self, n, st, fx):
        # while self.step(): BODY  - the test does the work (it calls a method of the program): read as
        # while True: if not self.step(): break; BODY, so that every way through the call is a way through the iteration
        if not n.orelse and not (isinstance(n.test, ast.Constant) and n.test.value is True):
            cls = fx.func.cls if fx.func.cls is not None else (fx.func.parent.cls if fx.func.parent is not None else None)
            calls_method = any(isinstance(x, ast.Call) and isinstance(x.func, ast.Attribute) and isinstance(x.func.value, ast.Name)
                               and x.func.value.id == "self" and cls is not None and self.prog.lookup_method(cls, x.func.attr) is not None
                               for x in ast.walk(n.test))
            if calls_method:
                brk = ast.copy_location(ast.If(test=ast.copy_location(ast.UnaryOp(op=ast.Not(), operand=n.test), n.test),
                                               body=[ast.copy_location(ast.Break(), n.test)], orelse=[]), n.test)
                w = ast.copy_location(ast.While(test=ast.copy_location(ast.Constant(value=True), n.test), body=[brk] + list(n.body), orelse=[]), n)
                yield from self.s_While(ast.fix_missing_locations(w), st, fx)
                return

        def bind(bs, loop_id):
            t = ("unk", "whiletest")
            for r, t0, s0 in self.ev(n.test, bs, fx):
                if r == "ok":
                    t = t0
                    # keep the state of the first outcome only (the test may inline calls, which rebind the frame)
                    for slot in ("env", "heap", "events", "conds", "facts", "stack", "hits", "frames"):
                        setattr(bs, slot, getattr(s0, slot))
                    break
            bs.conds = bs.conds + (Cond(t, True, fx.func.file, n.lineno, ast.unparse(n.test)),)
            self.assume(t, True, bs)
            return {"test": t}
        # is the body entered at least once?  (the test as it evaluates on the state before the loop; side-effect free tests only)
        enters = None
        if not any(isinstance(x, ast.Call) for x in ast.walk(n.test)):
            probe = st.fork()
            probe.events = []
            for r, t0, s0 in self.ev(n.test, probe, fx):
                if r == "ok":
                    enters = self.truth(t0, s0)
                break
        yield from self._loop_region(n, st, fx, "while", {"testnode": n.test, "enters": enters}, bind)

    # ---- try -------------------------------------------------------------
    def _handler_matches(self, h, exc, fx, st):
        if h.type is None:
            return True
        names = []
        for e in (h.type.elts if isinstance(h.type, ast.Tuple) else [h.type]):
            if isinstance(e, ast.Name) and e.id in st.env:
                # the exception class handed in as a value (def attempt(catch, f): try: .. except catch ..)
                v = st.env[e.id]
                if isinstance(v, tuple) and v[:1] == ("cls",):
                    names.append(v[1].qual)
                elif isinstance(v, tuple) and v[:1] == ("builtin",) and v[1] in BUILTIN_EXC:
                    names.append(v[1])
                else:
                    raise AnalysisError("except clause over a value that is not a known exception class at %s:%d" % (fx.func.file, h.lineno))
            elif isinstance(e, ast.Name):
                r = self.prog.resolve(fx.module, e.id)
                if r and r[0] == "class":
                    names.append(r[1].qual)
                elif e.id in BUILTIN_EXC:
                    names.append(e.id)
                else:
                    names.append(e.id)
            elif isinstance(e, ast.Attribute):
                names.append(e.attr)
        cls = exc[1] if isinstance(exc, tuple) and exc[0] == "exc" else "Exception"
        return any(self.prog.exc_is(cls, nm) for nm in names)

    def s_Try(self, n, st, fx):
        for exit_, s in self.block(n.body, st, fx):
            if exit_ is not None and exit_[0] == "raise":
                exc = exit_[1]
                handled = False
                for h in n.handlers:
                    if self._handler_matches(h, exc, fx, s):
                        handled = True
                        if h.name:
                            s.env[h.name] = exc
                        self.emit(s, fx, "CATCH", h, exc=exc, handler=ast.unparse(h.type) if h.type else "*")
                        for ex2, s2 in self.block(h.body, s, fx):
                            yield from self._finally(n, ex2, s2, fx)
                        break
                if not handled:
                    yield from self._finally(n, exit_, s, fx)
            elif exit_ is None:
                for ex2, s2 in self.block(n.orelse, s, fx):
                    yield from self._finally(n, ex2, s2, fx)
            else:
                yield from self._finally(n, exit_, s, fx)

    def _finally(self, n, exit_, st, fx):
        if not n.finalbody:
            yield exit_, st
            return
        for ex2, s2 in self.block(n.finalbody, st, fx):
            yield (ex2 if ex2 is not None else exit_), s2

    def s_With(self, n, st, fx):
        # with suppress(E1, ..): BODY  ==  try: BODY / except (E1, ..): pass
        if len(n.items) == 1 and n.items[0].optional_vars is None and isinstance(n.items[0].context_expr, ast.Call) \
                and not n.items[0].context_expr.keywords and n.items[0].context_expr.args \
                and (getattr(n.items[0].context_expr.func, "id", None) == "suppress" or getattr(n.items[0].context_expr.func, "attr", None) == "suppress") \
                and all(isinstance(a, (ast.Name, ast.Attribute)) for a in n.items[0].context_expr.args):
            args = n.items[0].context_expr.args
            typ = args[0] if len(args) == 1 else ast.Tuple(elts=list(args), ctx=ast.Load())
            h = ast.ExceptHandler(type=typ, name=None, body=[ast.Pass()])
            t = ast.Try(body=n.body, handlers=[h], orelse=[], finalbody=[])
            for x in (h, t, typ, h.body[0]):
                ast.copy_location(x, n)
            ast.fix_missing_locations(t)
            yield from self.stmt(t, st, fx)
            return
        # context managers are opaque: the context expressions are evaluated, targets bound to unknowns, the body runs
        def go(i, s):
            if i == len(n.items):
                yield from self.block(n.body, s, fx)
                return
            it = n.items[i]
            for r, t, s1 in self.ev(it.context_expr, s, fx):
                if r == "raise":
                    yield ("raise", t), s1
                    continue
                if it.optional_vars is not None:
                    for ex, s2 in self.assign(it.optional_vars, ("unk", "with@%d" % n.lineno), s1, fx, n):
                        if ex is not None:
                            yield ex, s2
                        else:
                            yield from go(i + 1, s2)
                else:
                    yield from go(i + 1, s1)
        yield from go(0, st)

    def s_Assert(self, n, st, fx):
        yield None, st
