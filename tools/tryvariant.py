#!/venv/bin/python
"""tools/tryvariant.py <name substring> [props...]: run the corpus variants whose name contains the substring against the checks
of every property they are registered for (or the given ones) and print what fired.  Development aid; nothing is written."""
import os
import sys
from concurrent.futures import ProcessPoolExecutor
sys.path.insert(0, os.path.dirname(os.path.dirname(os.path.abspath(__file__))))
from sa import corpus, selftest     # noqa: E402
from sa.report import load_known    # noqa: E402


def main():
    sub = sys.argv[1]
    props = sys.argv[2:]
    jobs = []
    for v in corpus.VARIANTS:
        if sub in v["name"]:
            for p in (props or sorted(v["props"])):
                known = sorted({(k["rule"], k["construct"]) for k in load_known() if k.get("property") == p and k.get("status") == "known"})
                jobs.append((p, v, known))
    with ProcessPoolExecutor(max_workers=16) as ex:
        for (p, v, _), (name, status, new) in zip(jobs, ex.map(selftest._run_one, jobs)):
            if new or status != "ran":
                print(p, v["kind"], name[:60], status, [("%s %s" % x)[:200] for x in new][:4])
    print("ran", len(jobs))


main()
