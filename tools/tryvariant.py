#!/venv/bin/python
"""tools/tryvariant.py <name substring> [props...]: run the corpus variants whose name contains the substring against the checks
of every property they are registered for (or the given ones) and print what fired.  Development aid; nothing is written."""
import os
import sys
from concurrent.futures import ProcessPoolExecutor
sys.path.insert(0, os.path.dirname(os.path.dirname(os.path.abspath(__file__))))
from sa import corpus, selftest     # noqa: E402
from sa.report import load_known    # noqa: E402


def main():
    sub = sys.argv[1]
    props = [x for x in sys.argv[2:] if x != "-v"]
    jobs = []
    for v in corpus.VARIANTS:
        if sub in v["name"]:
            for p in ([x for x in props if x in v["props"]] if props else sorted(v["props"])):
                known = sorted({(k["rule"], k["construct"]) for k in load_known() if k.get("property") == p and k.get("status") == "known"})
                jobs.append((p, v, known))
    with ProcessPoolExecutor(max_workers=16) as ex:
        for (p, v, _), (name, status, new) in zip(jobs, ex.map(selftest._run_one, jobs)):
            exp = v["expect"].get(p)
            fired = {r for r, _ in new}
            if status == "skipped":
                verdict = "skipped"
            elif v["kind"] == "N":
                verdict = "ok" if not new else "FALSE ALARM"
            else:
                verdict = "ok" if new and (exp is None or fired & set(exp) or (status == "analysis-error" and "ANALYSIS-ERROR" in exp)) else "MISSED"
            if verdict != "ok" or "-v" in sys.argv:
                print(verdict, p, v["kind"], name[:70], status, [("%s %s" % x)[:160] for x in new][:3])
    print("ran", len(jobs))


main()
