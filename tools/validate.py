#!/opt/veriftools/pyvenv/bin/python
import json, jsonschema, glob, sys
jsonschema.validate(json.load(open('/verif/MANIFEST.json')), json.load(open('/root/.vp/MANIFEST.schema.json')))
sch = json.load(open('/root/.vp/EVIDENCE.schema.json'))
for f in sorted(glob.glob('/verif/evidence/*.json')):
    jsonschema.validate(json.load(open(f)), sch)
print("manifest and", len(glob.glob('/verif/evidence/*.json')), "evidence files valid")
