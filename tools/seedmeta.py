#!/venv/bin/python
"""tools/seedmeta.py <seed-id> <property> "<needs>" : apply the seed to /repo, record which checks fire, undo, write meta.json."""
import json, os, subprocess, sys
sid, prop, needs = sys.argv[1], sys.argv[2], sys.argv[3]
d = "/verif/seeded/%s" % sid
patch = d + "/patch.diff"
assert subprocess.run(["git", "-C", "/repo", "diff", "--quiet"]).returncode == 0, "/repo dirty"
subprocess.run(["git", "-C", "/repo", "apply", patch], check=True)
caught = {}
try:
    import glob
    ev = {f: open(f).read() for f in glob.glob("/verif/evidence/*.json")}
    for i in range(1, 21):
        p = "C%02d" % i
        r = subprocess.run(["/verif/vcheck", p, "--tier", "quick"], capture_output=True, text=True, cwd="/verif")
        if r.returncode != 0:
            rules = sorted({l.split()[0] + " " + l.split()[1].rstrip(":") for l in r.stdout.splitlines() if l.startswith("  ")})
            caught[p] = {"exit": r.returncode, "findings": rules[:6] or [l for l in r.stdout.splitlines() if "ANALYSIS-ERROR" in l][:1]}
finally:
    subprocess.run(["git", "-C", "/repo", "checkout", "--", "."], check=True)
    for f, t in ev.items():
        open(f, "w").write(t)
    subprocess.run(["rm", "-rf", "/verif/reports"])
meta = {"seed": sid, "breaks_property": prop, "needs_to_manifest": needs,
        "confirmed": "tools/confirm_seed.sh: suite with the change 85 passed / 24 failed (same as baseline); demo.py exits non-zero with the change and 0 without it",
        "ran": ["git -C /repo apply seeded/%s/patch.diff" % sid, "./vcheck Cxx --tier quick for all 20 properties", "git -C /repo checkout -- ."],
        "caught_by": caught, "caught_by_own_property": prop in caught and caught[prop]["exit"] == 1}
json.dump(meta, open(d + "/meta.json", "w"), indent=1)
print(sid, prop, "own:", meta["caught_by_own_property"], "all:", {k: v["exit"] for k, v in caught.items()})
