#!/bin/bash
# Re-verify every kept seed against /repo's current HEAD in one scratch worktree: demo passes without the change, fails with it,
# suite unchanged with it.  Prints one line per seed.
wt=/tmp/wt_reverify
git -C /repo worktree remove --force $wt 2>/dev/null
git -C /repo worktree add -q $wt HEAD || exit 2
echo '__version__ = version = "0.0.0+scratch"' > $wt/src/mqtt/_version.py
for d in /verif/seeded/*/; do
  sid=$(basename $d)
  git -C $wt checkout -q -- src
  if ! git -C $wt apply --check $d/patch.diff 2>/dev/null; then echo "$sid: patch does not apply to HEAD"; continue; fi
  sed "s#/tmp/wt_C[0-9]*b\?#$wt#g; s#/tmp/wt_rb#$wt#g" $d/demo.py > $wt/demo.py
  (cd $wt && PYTHONPATH=$wt/src timeout 300 /venv/bin/python demo.py >/dev/null 2>&1); r0=$?
  git -C $wt apply $d/patch.diff
  (cd $wt && PYTHONPATH=$wt/src timeout 300 /venv/bin/python demo.py >/dev/null 2>&1); r1=$?
  suite=$(cd $wt && PYTHONPATH=$wt/src /venv/bin/python -m pytest -q -p no:cacheprovider --timeout=900 --continue-on-collection-errors 2>&1 | tail -1 | cut -c1-22)
  echo "$sid: demo without=$r0 with=$r1 suite='$suite'"
done
git -C /repo worktree remove --force $wt
