#!/bin/bash
# Runs every property's check in the given tier; prints one line per property.
tier=${1:-quick}
cd /verif
for i in $(seq -w 1 20); do
  out=$(./vcheck C$i --tier $tier 2>&1); rc=$?
  echo "C$i rc=$rc $(echo "$out" | grep -E "^C$i |ANALYSIS-ERROR" | tail -1 | cut -c1-200)"
  echo "$out" | grep -E "^VIOLATION|^KNOWN-FINDING" | cut -c1-160
done
# development guard: on the unchanged tree every hand-written corpus variant and every stored patch must still apply (a variant that
# stops applying is skipped by the selftest - deliberately, a later change of /repo must not turn the check into an error - so stale
# ones are reported here instead)
/venv/bin/python - <<'PY'
import sys, subprocess, glob
sys.path.insert(0, '/verif')
from sa import corpus, selftest
src = selftest.load_sources()
bad = [v['name'] for v in corpus.VARIANTS if selftest.apply_variant(src, v) is None]
for p in sorted(glob.glob('/verif/seeded/*/patch.diff') + glob.glob('/verif/neutral/*/patch.diff') + glob.glob('/verif/twins/*/patch.diff')):
    if subprocess.run(['git', '-C', '/repo', 'apply', '--check', p], capture_output=True).returncode != 0:
        bad.append(p)
print("stale variants:", bad if bad else "none")
PY
