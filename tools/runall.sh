#!/bin/bash
# Runs every property's check in the given tier; prints one line per property.
tier=${1:-quick}
cd /verif
for i in $(seq -w 1 20); do
  out=$(./vcheck C$i --tier $tier 2>&1); rc=$?
  echo "C$i rc=$rc $(echo "$out" | grep -E "^C$i |ANALYSIS-ERROR" | tail -1 | cut -c1-200)"
  echo "$out" | grep -E "^VIOLATION|^KNOWN-FINDING" | cut -c1-160
done
