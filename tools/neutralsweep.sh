#!/bin/bash
# tools/neutralsweep.sh [ids...]: apply every kept behaviour-preserving refactoring (neutral/<id>/patch.diff) to /repo in turn, run the
# quick check of all twenty properties, undo.  Every check must exit 0; anything else is printed (exit 1 = false alarm, 2 = no verdict).
cd /verif
if ! git -C /repo diff --quiet; then echo "/repo has local changes; refusing"; exit 2; fi
mkdir -p /tmp/seedev && cp -r evidence /tmp/seedev/
trap 'git -C /repo checkout -- . ; cp /tmp/seedev/evidence/*.json /verif/evidence/ 2>/dev/null; rm -rf /tmp/seedev /verif/reports' EXIT
ids=${@:-$(ls neutral)}
for sid in $ids; do
  d=neutral/$sid
  if ! git -C /repo apply --check /verif/$d/patch.diff 2>/dev/null; then echo "$sid: patch does not apply to HEAD"; continue; fi
  git -C /repo apply /verif/$d/patch.diff
  bad=""
  for i in $(seq -w 1 20); do
    ( out=$(./vcheck C$i --tier quick 2>&1); rc=$?
      if [ $rc -ne 0 ]; then echo "$sid C$i rc=$rc"; echo "$out" | grep -E "^  [A-Z]|ANALYSIS-ERROR" | head -${LINES_PER:-3} | cut -c1-${WIDTH:-260}; fi ) &
  done
  wait
  git -C /repo checkout -- .
  echo "$sid: done"
done
