#!/bin/bash
# tools/tryseed.sh <patch file> [tier]: apply a seeded change to /repo, run every check, undo it.
patch=$1; tier=${2:-quick}
cd /verif
if ! git -C /repo diff --quiet; then echo "/repo has local changes; refusing"; exit 2; fi
if ! git -C /repo apply --check "$patch" 2>/dev/null; then echo "patch does not apply: $patch"; exit 2; fi
git -C /repo apply "$patch"
trap 'git -C /repo checkout -- . ' EXIT
mkdir -p /tmp/seedev && cp -r evidence /tmp/seedev/ 2>/dev/null
for i in $(seq -w 1 20); do
  ( out=$(./vcheck C$i --tier $tier 2>&1); rc=$?
    if [ $rc -ne 0 ]; then echo "C$i rc=$rc"; echo "$out" | grep -E "^  [A-Z]|ANALYSIS-ERROR" | head -4 | cut -c1-260; fi ) &
done
wait
# evidence files are rewritten by the runs above: restore the clean-tree evidence
cp /tmp/seedev/evidence/*.json evidence/ 2>/dev/null; rm -rf /tmp/seedev reports
echo "done"
