#!/venv/bin/python
"""tools/ruleaudit.py [--jobs N]: development aid - which rule sites have a positive example?

Every `ctx.ob(...)` call site in sa/rules/*.py (and the helpers they call) is a place where a rule instance is recorded.  This runs, per
property, the unchanged tree, the breaking variants of the corpus registered for it and the seeded changes that break it (all in memory, on
scratch sources), records for every call site whether it was reached and whether it ever recorded a failing instance, and prints
  - the sites never reached at all (dead code, or a rule whose anchor is gone), and
  - the sites that never failed on any variant (a rule without a positive example: nothing shows that it can fire).
Writes nothing under /verif."""
import ast
import glob
import importlib
import os
import sys
from concurrent.futures import ProcessPoolExecutor

ROOT = os.path.dirname(os.path.dirname(os.path.abspath(__file__)))
sys.path.insert(0, ROOT)


def sites():
    out = {}
    for f in sorted(glob.glob(os.path.join(ROOT, "sa", "rules", "*.py")) + [os.path.join(ROOT, "sa", "lifecycle.py")]):
        tree = ast.parse(open(f).read())
        for n in ast.walk(tree):
            if isinstance(n, ast.Call) and isinstance(n.func, ast.Attribute) and n.func.attr == "ob" and isinstance(n.func.value, ast.Name) \
                    and n.func.value.id in ("ctx", "sub"):
                rule = n.args[0].value if n.args and isinstance(n.args[0], ast.Constant) else "?"
                const = None
                if len(n.args) > 2 and isinstance(n.args[2], ast.Constant):
                    const = n.args[2].value
                out[(os.path.relpath(f, ROOT), n.lineno)] = (rule, const)
    return out


def run(args):
    prop, v = args
    from sa import report, selftest
    from sa.engine import Analysis
    from sa.model import load_sources, AnalysisError
    seen = {}
    orig = report.Ctx.ob

    def ob(self, rule, instance, ok, *a, **k):
        fr = sys._getframe(1)
        key = (os.path.relpath(fr.f_code.co_filename, ROOT), fr.f_lineno)
        seen.setdefault(key, set()).add(bool(ok))
        return orig(self, rule, instance, ok, *a, **k)
    report.Ctx.ob = ob
    try:
        if v is None:
            src = load_sources()
        elif "patch" in v:
            src = selftest.patched_sources(v["patch"])
        else:
            src = selftest.apply_variant(load_sources(), v)
        if src is None:
            return {}
        a = Analysis(sources=src)
        ctx = report.Ctx(prop, a, "audit")
        importlib.import_module("sa.rules." + prop.lower()).check(ctx)
    except AnalysisError:
        pass
    except Exception as e:       # a crash on a variant is the selftest's business
        print("crash", prop, v and v["name"], type(e).__name__, e, file=sys.stderr)
    finally:
        report.Ctx.ob = orig
    return {k: sorted(x) for k, x in seen.items()}


def main():
    jobs = 14
    if "--jobs" in sys.argv:
        jobs = int(sys.argv[sys.argv.index("--jobs") + 1])
    from sa import corpus, selftest
    work = []
    for i in range(1, 21):
        p = "C%02d" % i
        work.append((p, None))
        work += [(p, v) for v in corpus.VARIANTS if v["kind"] == "B" and p in v["props"]]
        work += [(p, v) for v in selftest.seeded_variants(p)]
    allsites = sites()
    reached, failed = set(), set()
    with ProcessPoolExecutor(max_workers=jobs) as ex:
        for res in ex.map(run, work, chunksize=4):
            for k, oks in res.items():
                k = tuple(k)
                reached.add(k)
                if False in oks:
                    failed.add(k)

    def near(k, pool):
        # a call spread over several lines is reported at the line of one of its arguments
        return any(k[0] == q[0] and 0 <= q[1] - k[1] <= 0 for q in pool)
    print("%d rule sites, %d runs" % (len(allsites), len(work)))
    print("--- never reached")
    for k in sorted(allsites):
        if not near(k, reached):
            print("  %s:%d %s%s" % (k[0], k[1], allsites[k][0], "  (records only failures)" if allsites[k][1] is False else ""))
    print("--- reached, never failed on any variant")
    for k in sorted(allsites):
        if near(k, reached) and not near(k, failed) and allsites[k][1] is not True:
            print("  %s:%d %s" % (k[0], k[1], allsites[k][0]))


if __name__ == "__main__":
    main()
