#!/bin/bash
# tools/confirm_neutral.sh <worktree> <id>: confirm a behaviour-preserving refactoring written by a sub-agent (from its mutation.diff on a
# clean checkout: suite unchanged, its demo passes with and without it) and store it under /verif/neutral/<id>/
wt=$1; sid=$2
cd $wt || exit 2
[ -s mutation.diff ] || { echo "no mutation.diff in $wt"; exit 2; }
cp mutation.diff /tmp/confirmn_$sid.diff
git checkout -q -- src
[ -f src/mqtt/_version.py ] || echo '__version__ = version = "0.0.0+scratch"' > src/mqtt/_version.py
PYTHONPATH=$wt/src timeout 600 /venv/bin/python demo.py > /tmp/confirmn_$sid.without 2>&1; rc_without=$?
git apply /tmp/confirmn_$sid.diff || { echo "mutation.diff does not apply"; exit 2; }
suite=$(PYTHONPATH=$wt/src /venv/bin/python -m pytest -q -p no:cacheprovider --timeout=900 --continue-on-collection-errors 2>&1 | tail -1)
fails=$(PYTHONPATH=$wt/src /venv/bin/python -m pytest -q -p no:cacheprovider --timeout=900 --continue-on-collection-errors 2>&1 | grep -c "^FAILED.*test_disconnect_")
PYTHONPATH=$wt/src timeout 600 /venv/bin/python demo.py > /tmp/confirmn_$sid.with 2>&1; rc_with=$?
echo "suite with refactoring: $suite (test_disconnect failures: $fails) | demo rc with=$rc_with without=$rc_without | $(grep -c '^[-+][^-+]' /tmp/confirmn_$sid.diff) changed lines"
ok=1
echo "$suite" | grep -q "24 failed, 85 passed" || ok=0
[ "$fails" = "24" ] || ok=0
[ $rc_with -eq 0 ] || ok=0
[ $rc_without -eq 0 ] || ok=0
if [ $ok -eq 1 ]; then
  d=/verif/neutral/$sid; mkdir -p $d
  cp /tmp/confirmn_$sid.diff $d/patch.diff; cp demo.py $d/demo.py; cp NOTES.md $d/NOTES.md 2>/dev/null
  echo "CONFIRMED -> $d"
else
  echo "NOT CONFIRMED"
fi
rm -f /tmp/confirmn_$sid.*
