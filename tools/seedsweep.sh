#!/bin/bash
# tools/seedsweep.sh: apply every kept seed to /repo in turn, run the quick check of its own property, undo; one line per seed.
# (evidence files are restored afterwards)  A seed whose patch no longer applies to HEAD is reported as such.
cd /verif
if ! git -C /repo diff --quiet; then echo "/repo has local changes; refusing"; exit 2; fi
mkdir -p /tmp/seedev && cp -r evidence /tmp/seedev/
trap 'git -C /repo checkout -- . ; cp /tmp/seedev/evidence/*.json /verif/evidence/ 2>/dev/null; rm -rf /tmp/seedev /verif/reports' EXIT
for d in seeded/*/; do
  sid=$(basename $d); prop=$(python3 -c "import json;print(json.load(open('$d/meta.json'))['breaks_property'])")
  if ! git -C /repo apply --check /verif/$d/patch.diff 2>/dev/null; then echo "$sid $prop: patch does not apply to HEAD"; continue; fi
  git -C /repo apply /verif/$d/patch.diff
  out=$(./vcheck $prop --tier quick 2>&1); rc=$?
  git -C /repo checkout -- .
  echo "$sid $prop: rc=$rc $(echo "$out" | grep -E '^  [A-Z]' | awk '{print $1}' | sort -u | tr '\n' ' ')"
done
