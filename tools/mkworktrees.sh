#!/bin/bash
# tools/mkworktrees.sh <suffix> [ids...]: scratch worktrees /tmp/wt_<id><suffix> of /repo HEAD for sub-agents, with the git-ignored version stub
suf=$1; shift
ids=${@:-$(seq -f "C%02g" 1 20)}
for id in $ids; do
  wt=/tmp/wt_$id$suf
  git -C /repo worktree remove --force $wt 2>/dev/null
  git -C /repo worktree add -q --detach $wt HEAD || exit 2
  echo '__version__ = version = "0.0.0+scratch"' > $wt/src/mqtt/_version.py
  python3 /verif/tools/agent_prompt.py $id $suf ${MODE:-break} > /tmp/prompt_$id$suf.txt
done
git -C /repo worktree list | wc -l
