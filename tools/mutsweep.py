#!/venv/bin/python
"""tools/mutsweep.py [--jobs N] [--files a,b] [--out FILE]: first-order mutation sweep (development aid, not a check).

Every mutant of the library sources (comparison / boolean / arithmetic operator swaps, negated conditions, constants +-1, deleted
statements, swapped sibling registries and methods) is (1) run against the repository's own test suite in a scratch copy under the
system temp dir and, when the suite cannot tell it from the original, (2) analysed in memory by all twenty checks.  Printed: the
mutants the suite does not notice, with the checks that report them - the ones no check reports are the list to triage by hand
(equivalent mutants, or gaps).  Nothing is written under /verif except the optional --out file."""
import ast
import copy
import json
import os
import shutil
import subprocess
import sys
import tempfile
from concurrent.futures import ProcessPoolExecutor

sys.path.insert(0, os.path.dirname(os.path.dirname(os.path.abspath(__file__))))
REPO = os.environ.get("VERIF_REPO", "/repo")
FILES = ["src/mqtt/pdu.py", "src/mqtt/client/base.py", "src/mqtt/client/pubsubs.py", "src/mqtt/client/publisher.py",
         "src/mqtt/client/subscriber.py", "src/mqtt/client/factory.py", "src/mqtt/client/interval.py"]
CMP = {ast.Lt: ast.LtE, ast.LtE: ast.Lt, ast.Gt: ast.GtE, ast.GtE: ast.Gt, ast.Eq: ast.NotEq, ast.NotEq: ast.Eq, ast.Is: ast.IsNot,
       ast.IsNot: ast.Is, ast.In: ast.NotIn, ast.NotIn: ast.In}
BIN = {ast.Add: ast.Sub, ast.Sub: ast.Add, ast.LShift: ast.RShift, ast.RShift: ast.LShift, ast.BitAnd: ast.BitOr, ast.BitOr: ast.BitAnd,
       ast.Mult: ast.FloorDiv, ast.FloorDiv: ast.Mult, ast.Mod: ast.FloorDiv}
ATTR = {"windowPublish": "windowPubRelease", "windowPubRelease": "windowPublish", "windowSubscribe": "windowUnsubscribe",
        "windowUnsubscribe": "windowSubscribe", "windowPubRx": "windowPubRelease", "callback": "errback", "errback": "callback",
        "popleft": "pop", "append": "appendleft", "abortConnection": "loseConnection", "loseConnection": "abortConnection",
        "CONNECTED": "CONNECTING", "CONNECTING": "CONNECTED", "IDLE": "CONNECTED"}


def _parents(tree):
    par = {}
    for n in ast.walk(tree):
        for c in ast.iter_child_nodes(n):
            par[c] = n
    return par


def _skipped(node, par):
    """Inside a log call, a docstring, an import, __all__, or the Python 2 arm of a PY2 test."""
    n = node
    while n in par:
        p = par[n]
        if isinstance(p, ast.Call) and isinstance(p.func, ast.Attribute) and isinstance(p.func.value, ast.Name) and p.func.value.id == "log":
            return True
        if isinstance(p, (ast.If, ast.IfExp)) and isinstance(p.test, ast.Name) and p.test.id == "PY2":
            body = p.body if isinstance(p.body, list) else [p.body]
            if any(n is b for b in body):
                return True
        if isinstance(p, (ast.Import, ast.ImportFrom)):
            return True
        if isinstance(p, ast.Assign) and any(isinstance(t, ast.Name) and t.id in ("__all__", "log", "PY2") for t in p.targets):
            return True
        n = p
    if isinstance(node, ast.Call) and isinstance(node.func, ast.Attribute) and isinstance(node.func.value, ast.Name) and node.func.value.id == "log":
        return True
    return False


def mutations(src):
    """[(node index, kind, description)] in a deterministic order."""
    tree = ast.parse(src)
    par = _parents(tree)
    nodes = list(ast.walk(tree))
    out = []
    for j, n in enumerate(nodes):
        if _skipped(n, par):
            continue
        ln = getattr(n, "lineno", 0)
        if isinstance(n, ast.Compare):
            for k, op in enumerate(n.ops):
                if type(op) in CMP:
                    out.append((j, "cmp%d" % k, "%d: %s -> %s" % (ln, type(op).__name__, CMP[type(op)].__name__)))
        elif isinstance(n, ast.BoolOp):
            out.append((j, "bool", "%d: %s swapped" % (ln, type(n.op).__name__)))
        elif isinstance(n, ast.UnaryOp) and isinstance(n.op, ast.Not):
            out.append((j, "unnot", "%d: not removed" % ln))
        elif isinstance(n, (ast.If, ast.While)) and not (isinstance(n.test, ast.Name) and n.test.id == "PY2"):
            out.append((j, "negtest", "%d: %s condition negated" % (ln, type(n).__name__)))
        elif isinstance(n, (ast.BinOp, ast.AugAssign)) and type(n.op) in BIN:
            if isinstance(n, ast.BinOp) and isinstance(n.op, ast.Mod) and isinstance(n.left, ast.Constant) and isinstance(n.left.value, str):
                continue
            out.append((j, "bin", "%d: %s -> %s" % (ln, type(n.op).__name__, BIN[type(n.op)].__name__)))
        elif isinstance(n, ast.Constant) and type(n.value) is int and not isinstance(par.get(n), ast.Expr):
            out.append((j, "inc", "%d: %r + 1" % (ln, n.value)))
            if n.value > 0:
                out.append((j, "dec", "%d: %r - 1" % (ln, n.value)))
        elif isinstance(n, ast.Constant) and type(n.value) is bool:
            out.append((j, "flip", "%d: %r flipped" % (ln, n.value)))
        elif isinstance(n, ast.Attribute) and n.attr in ATTR:
            out.append((j, "attr", "%d: .%s -> .%s" % (ln, n.attr, ATTR[n.attr])))
        if isinstance(n, ast.If) and not (isinstance(n.test, ast.Name) and n.test.id == "PY2"):
            out.append((j, "iftrue", "%d: if %s -> if True" % (ln, ast.unparse(n.test)[:40])))
            out.append((j, "iffalse", "%d: if %s -> if False" % (ln, ast.unparse(n.test)[:40])))
            if n.orelse:
                out.append((j, "noelse", "%d: else branch of if %s dropped" % (ln, ast.unparse(n.test)[:40])))
        if isinstance(n, ast.Call) and len(n.args) >= 2 and not any(isinstance(a_, ast.Starred) for a_ in n.args):
            out.append((j, "argswap", "%d: first two arguments of %s swapped" % (ln, ast.unparse(n.func)[:40])))
        for fld in ("body", "orelse", "finalbody"):
            blk = getattr(n, fld, None)
            if isinstance(blk, list) and not isinstance(n, ast.Module):
                for k in range(len(blk) - 1):
                    a_, b_ = blk[k], blk[k + 1]
                    simple = (ast.Expr, ast.Assign, ast.AugAssign, ast.Delete)
                    if isinstance(a_, simple) and isinstance(b_, simple) and not _skipped(a_.value if isinstance(a_, ast.Expr) else a_, par) \
                            and not _skipped(b_.value if isinstance(b_, ast.Expr) else b_, par) \
                            and not (isinstance(a_, ast.Expr) and isinstance(a_.value, ast.Constant)):
                        out.append((j, "swap:%s:%d" % (fld, k), "%d: statements swapped: %s <-> %s" % (getattr(a_, "lineno", 0), ast.unparse(a_)[:40], ast.unparse(b_)[:40])))
        if isinstance(n, ast.stmt) and not isinstance(par.get(n), ast.Module):
            if isinstance(n, ast.Expr) and isinstance(n.value, ast.Call):
                out.append((j, "del", "%d: statement %s deleted" % (ln, ast.unparse(n)[:60])))
            elif isinstance(n, (ast.Assign, ast.AugAssign, ast.Delete, ast.Raise)):
                out.append((j, "del", "%d: statement %s deleted" % (ln, ast.unparse(n)[:60])))
            elif isinstance(n, ast.Return) and n.value is not None and not (isinstance(n.value, ast.Constant) and n.value.value is None):
                out.append((j, "retnone", "%d: %s -> return None" % (ln, ast.unparse(n)[:60])))
            elif isinstance(n, ast.Continue):
                out.append((j, "del", "%d: continue deleted" % ln))
    return out


def apply(src, j, kind):
    tree = ast.parse(src)
    par = _parents(tree)
    n = list(ast.walk(tree))[j]
    if kind.startswith("cmp"):
        k = int(kind[3:])
        n.ops[k] = CMP[type(n.ops[k])]()
    elif kind == "bool":
        n.op = ast.Or() if isinstance(n.op, ast.And) else ast.And()
    elif kind == "unnot":
        p = par[n]
        for f, v in ast.iter_fields(p):
            if v is n:
                setattr(p, f, n.operand)
            elif isinstance(v, list) and any(x is n for x in v):
                v[[i for i, x in enumerate(v) if x is n][0]] = n.operand
    elif kind == "negtest":
        n.test = ast.UnaryOp(op=ast.Not(), operand=n.test)
    elif kind == "bin":
        n.op = BIN[type(n.op)]()
    elif kind == "inc":
        n.value = n.value + 1
    elif kind == "dec":
        n.value = n.value - 1
    elif kind == "flip":
        n.value = not n.value
    elif kind == "attr":
        n.attr = ATTR[n.attr]
    elif kind == "del":
        p = par[n]
        for f, v in ast.iter_fields(p):
            if isinstance(v, list) and any(x is n for x in v):
                v[[i for i, x in enumerate(v) if x is n][0]] = ast.Pass()
    elif kind == "retnone":
        n.value = None
    elif kind == "iftrue":
        n.test = ast.Constant(value=True)
    elif kind == "iffalse":
        n.test = ast.Constant(value=False)
    elif kind == "noelse":
        n.orelse = []
    elif kind == "argswap":
        n.args[0], n.args[1] = n.args[1], n.args[0]
    elif kind.startswith("swap:"):
        _, fld, k = kind.split(":")
        blk = getattr(n, fld)
        k = int(k)
        blk[k], blk[k + 1] = blk[k + 1], blk[k]
    ast.fix_missing_locations(tree)
    return ast.unparse(tree) + "\n"


_BASE = None


def suite(root):
    """(summary line, sorted failed ids) of the repository's suite run in the scratch copy `root`."""
    env = dict(os.environ, PYTHONPATH=os.path.join(root, "src"), PYTHONDONTWRITEBYTECODE="1")
    try:
        r = subprocess.run(["/venv/bin/python", "-m", "pytest", "-q", "-p", "no:cacheprovider", "--timeout=20", "--continue-on-collection-errors",
                            "-x" if False else "-rfE"], cwd=root, env=env, capture_output=True, text=True, timeout=300)
    except subprocess.TimeoutExpired:
        return ("timeout", [])
    lines = r.stdout.splitlines()
    failed = sorted(l.split(" - ")[0] for l in lines if l.startswith(("FAILED", "ERROR")))
    return (lines[-1] if lines else "", failed)


def scratch(rel=None, text=None):
    d = tempfile.mkdtemp(prefix="vp_mut_")
    shutil.copytree(os.path.join(REPO, "src"), os.path.join(d, "src"), ignore=shutil.ignore_patterns("__pycache__", "*.pyc", "*.egg-info"))
    for f in ("pyproject.toml", "setup.cfg", "tox.ini"):
        if os.path.exists(os.path.join(REPO, f)):
            shutil.copy(os.path.join(REPO, f), d)
    if rel is not None:
        with open(os.path.join(d, rel), "w") as fh:
            fh.write(text)
    return d


def one(args):
    rel, j, kind, desc, base_failed = args
    from sa.model import load_sources, AnalysisError
    src = load_sources()
    try:
        mutated = apply(src[rel], j, kind)
        compile(mutated, rel, "exec", dont_inherit=True)
    except Exception as e:      # noqa
        return {"file": rel, "desc": desc, "status": "does-not-compile"}
    if mutated == ast.unparse(ast.parse(src[rel])) + "\n":
        return {"file": rel, "desc": desc, "status": "no-change"}
    d = scratch(rel, mutated)
    try:
        summary, failed = suite(d)
    finally:
        shutil.rmtree(d, ignore_errors=True)
    if failed != base_failed or "85 passed" not in summary:
        return {"file": rel, "desc": desc, "status": "killed-by-suite", "suite": summary}
    # the suite does not notice: what do the checks say?
    import importlib
    from sa.engine import Analysis
    from sa.report import Ctx, load_known
    srcs = dict(src)
    srcs[rel] = mutated
    fired, errors = {}, {}
    try:
        a = Analysis(sources=srcs)
    except AnalysisError as e:
        return {"file": rel, "desc": desc, "status": "survives-suite", "fired": {}, "errors": {"all": str(e)[:200]}}
    except Exception as e:      # noqa
        return {"file": rel, "desc": desc, "status": "survives-suite", "fired": {}, "errors": {"all": "crash %s: %s" % (type(e).__name__, str(e)[:200])}}
    known = load_known()
    for i in range(1, 21):
        p = "C%02d" % i
        mod = importlib.import_module("sa.rules." + p.lower())
        kk = {(k["rule"], k["construct"]) for k in known if k.get("property") == p and k.get("status") == "known"}
        try:
            ctx = Ctx(p, a, "mutsweep")
            mod.check(ctx)
            new = sorted({(f.rule, f.construct) for f in ctx.findings} - kk)
            if new:
                fired[p] = ["%s %s" % x for x in new][:3]
            else:
                for what, seen, fl in ctx.floors:
                    if seen < fl:
                        errors[p] = "floor %s" % what
        except AnalysisError as e:
            errors[p] = str(e)[:160]
        except Exception as e:      # noqa
            errors[p] = "crash %s: %s" % (type(e).__name__, str(e)[:160])
    return {"file": rel, "desc": desc, "status": "survives-suite", "fired": fired, "errors": errors}


def main():
    jobs = 14
    files = FILES
    out = None
    kinds = None
    lines = None
    argv = sys.argv[1:]
    while argv:
        a = argv.pop(0)
        if a == "--jobs":
            jobs = int(argv.pop(0))
        elif a == "--files":
            files = argv.pop(0).split(",")
        elif a == "--out":
            out = argv.pop(0)
        elif a == "--kinds":
            kinds = argv.pop(0).split(",")
        elif a == "--lines":
            lines = {int(x) for x in argv.pop(0).split(",")}
    from sa.model import load_sources
    src = load_sources()
    d = scratch()
    try:
        summary, base_failed = suite(d)
    finally:
        shutil.rmtree(d, ignore_errors=True)
    print("baseline suite:", summary, "(%d failing ids)" % len(base_failed), flush=True)
    work = []
    for rel in files:
        for j, kind, desc in mutations(src[rel]):
            if kinds and not any(kind.startswith(k) for k in kinds):
                continue
            if lines and int(desc.split(":")[0]) not in lines:
                continue
            work.append((rel, j, kind, desc, base_failed))
    print("mutants:", len(work), flush=True)
    res = []
    with ProcessPoolExecutor(max_workers=jobs) as ex:
        for r in ex.map(one, work, chunksize=1):
            res.append(r)
            if r["status"] == "survives-suite":
                tag = "CAUGHT " if r["fired"] else ("NOVERDICT" if r["errors"] and not r["fired"] else "SILENT ")
                print(tag, r["file"].split("/")[-1], r["desc"], "|", " ".join(sorted(r["fired"])), ("| errors: %s" % sorted(r["errors"]) if r["errors"] else ""), flush=True)
    n = len(res)
    ks = sum(1 for r in res if r["status"] == "killed-by-suite")
    sv = [r for r in res if r["status"] == "survives-suite"]
    print("total %d, killed by the suite %d, not compiling/no change %d, surviving the suite %d: reported by a check %d, no verdict only %d, silent %d" % (
        n, ks, n - ks - len(sv), len(sv), sum(1 for r in sv if r["fired"]), sum(1 for r in sv if not r["fired"] and r["errors"]),
        sum(1 for r in sv if not r["fired"] and not r["errors"])))
    if out:
        with open(out, "w") as fh:
            json.dump(res, fh, indent=1)


if __name__ == "__main__":
    main()
