#!/bin/bash
# tools/roundproc.sh <suffix> [ids...]: for every finished sub-agent worktree /tmp/wt_<id><suffix> of a breaking round: confirm the change
# (tools/confirm_seed.sh) and list which checks report it (tools/tryseed.sh).  Development aid.
suf=$1; shift
ids=${@:-$(seq -f "C%02g" 1 20)}
cd /verif
for id in $ids; do
  wt=/tmp/wt_$id$suf
  [ -s $wt/mutation.diff ] || { echo "$id-$suf: no mutation.diff yet"; continue; }
  [ -f seeded/$id-$suf/patch.diff ] || tools/confirm_seed.sh $wt $id-$suf $id 2>&1 | tail -1
  if [ -f seeded/$id-$suf/patch.diff ]; then
    echo "$id-$suf: $(tools/tryseed.sh /verif/seeded/$id-$suf/patch.diff 2>&1 | grep 'rc=' | sort | tr '\n' ' ')"
  fi
done
