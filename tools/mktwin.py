#!/venv/bin/python
"""tools/mktwin.py <name> <neutral id> <props,comma> <file under src/> <old text> <new text> [what]

Development aid: the *other way* test of a reading added for a refactored shape.  Takes a kept behaviour-preserving refactoring
(neutral/<id>/patch.diff), applies it to a scratch copy of /repo's sources, breaks one thing in the refactored source by an
exact-text edit (which must match once), and stores the combined change as twins/<name>/patch.diff (a diff against the current tree)
with a meta.json naming the properties whose checks must report it.  The thorough tier runs every twin against those properties
(sa/selftest.py, twin_variants)."""
import json
import os
import shutil
import subprocess
import sys
import tempfile

ROOT = os.path.dirname(os.path.dirname(os.path.abspath(__file__)))


def main():
    name, nid, props, rel, old, new = sys.argv[1:7]
    what = sys.argv[7] if len(sys.argv) > 7 else ""
    old, new = old.encode().decode("unicode_escape"), new.encode().decode("unicode_escape")
    tmp = tempfile.mkdtemp(prefix="vp_twin_")
    try:
        for d in ("a", "b"):
            shutil.copytree("/repo/src", os.path.join(tmp, d, "src"),
                            ignore=shutil.ignore_patterns("__pycache__", "*.pyc", "*.egg-info"))
        patch = os.path.join(ROOT, "neutral", nid, "patch.diff")
        subprocess.run(["git", "apply", "--whitespace=nowarn", patch], cwd=os.path.join(tmp, "b"), check=True)
        p = os.path.join(tmp, "b", "src", rel)
        s = open(p).read()
        if s.count(old) != 1:
            sys.exit("old text matches %d times in %s" % (s.count(old), rel))
        open(p, "w").write(s.replace(old, new))
        r = subprocess.run(["git", "diff", "--no-index", "--no-color", "a/src", "b/src"], cwd=tmp, capture_output=True, text=True)
        diff = r.stdout.replace("a/a/src/", "a/src/").replace("b/b/src/", "b/src/")
        out = os.path.join(ROOT, "twins", name)
        os.makedirs(out, exist_ok=True)
        open(os.path.join(out, "patch.diff"), "w").write(diff)
        json.dump({"base": "neutral/%s" % nid, "breaks": props.split(","), "file": "src/" + rel, "old": old, "new": new, "what": what},
                  open(os.path.join(out, "meta.json"), "w"), indent=1)
        chk = subprocess.run(["git", "apply", "--check", "--whitespace=nowarn", os.path.join(out, "patch.diff")], cwd=os.path.join(tmp, "a"),
                             capture_output=True, text=True)
        print(name, "ok" if chk.returncode == 0 else "DOES NOT APPLY: " + chk.stderr[:200])
    finally:
        shutil.rmtree(tmp, ignore_errors=True)


if __name__ == "__main__":
    main()
