#!/bin/bash
# tools/nsweep.sh [ids...]: run every check in-process (tools/ncheck.py, scratch worktree, /repo untouched) on every kept
# behaviour-preserving refactoring; prints what is not silent.  Development aid.
cd /verif
ids=${@:-$(ls neutral)}
for n in $ids; do
  echo "=== $n"
  WIDTH=${WIDTH:-230} LINES_PER=${LINES_PER:-4} tools/ncheck.py neutral/$n/patch.diff 2>&1 | grep -v "whitespace\|^warning\|^    \|^+\|^done"
done
