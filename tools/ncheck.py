#!/venv/bin/python
"""tools/ncheck.py <patch> [props...]: development aid - apply a patch to a scratch worktree of /repo (never /repo itself), run the
rules of the given properties (default all) on those sources in-process and print the findings.  Writes no evidence, no reports."""
import importlib
import os
import subprocess
import sys
from concurrent.futures import ProcessPoolExecutor
sys.path.insert(0, os.path.dirname(os.path.dirname(os.path.abspath(__file__))))
WT = os.environ.get("NCHECK_WT", "/tmp/wt_dbg")


def prepare(patch):
    if not os.path.isdir(WT):
        subprocess.run(["git", "-C", "/repo", "worktree", "add", "-q", "--detach", WT, "HEAD"], check=True)
    subprocess.run(["git", "-C", WT, "checkout", "-q", "--", "."], check=True)
    subprocess.run(["git", "-C", WT, "clean", "-qfd", "src"], check=True)
    if patch != "-":
        subprocess.run(["git", "-C", WT, "apply", os.path.abspath(patch)], check=True)


def run(prop):
    from sa.model import load_sources, AnalysisError
    from sa.engine import Analysis
    from sa.report import Ctx, load_known
    known = {(k["rule"], k["construct"]) for k in load_known() if k.get("property") == prop and k.get("status") == "known"}
    out = []
    try:
        a = Analysis(sources=load_sources(WT))
        ctx = Ctx(prop, a, "dev")
        importlib.import_module("sa.rules." + prop.lower()).check(ctx)
        seen = set()
        for f in ctx.findings:
            if (f.rule, f.construct) in known or (f.rule, f.construct) in seen:
                continue
            seen.add((f.rule, f.construct))
            out.append("  %s %s: %s:%s -- %s" % (f.rule, f.construct, f.file, f.line, f.message[:int(os.environ.get("WIDTH", "200"))]))
        if not out:
            for what, s, fl in ctx.floors:
                if s < fl:
                    out.append("  FLOOR %s: %d seen, %d required" % (what, s, fl))
    except AnalysisError as e:
        out.append("  ANALYSIS-ERROR %s" % e)
    except Exception as e:
        import traceback
        out.append("  CRASH %s: %s" % (type(e).__name__, e))
        out.append(traceback.format_exc()[-600:])
    return prop, out


def main():
    patch = sys.argv[1]
    props = sys.argv[2:] or ["C%02d" % i for i in range(1, 21)]
    if not os.environ.get("NCHECK_KEEP"):      # NCHECK_KEEP=1: analyse the scratch worktree as it stands (hand-edited)
        prepare(patch)
    with ProcessPoolExecutor(max_workers=min(16, len(props))) as ex:
        for prop, out in ex.map(run, props):
            if out:
                print(prop)
                print("\n".join(out[:int(os.environ.get("LINES_PER", "6"))]))
    print("done")


main()
