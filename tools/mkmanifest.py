#!/venv/bin/python
"""Regenerates MANIFEST.json from sa/manifest_data.py (claimed checks) and properties.jsonl."""
import json, os, sys
sys.path.insert(0, os.path.dirname(os.path.dirname(os.path.abspath(__file__))))
from sa.manifest_data import CHECKS, NOT_APPLICABLE, NOTES
ids = [json.loads(l)["id"] for l in open("/verif/properties.jsonl")]
checks = []
for pid in ids:
    if pid not in CHECKS:
        continue
    c = CHECKS[pid]
    checks.append({
        "property_id": pid,
        "quick_cmd": "./vcheck %s --tier quick" % pid,
        "thorough_cmd": "./vcheck %s --tier thorough" % pid,
        "evidence_file": "/verif/evidence/%s.json" % pid,
        "replay_cmd_template": "cat {path}",
        "engine": "sa",
        "level_claimed": {"category": "other", "text": c["text"], "design_ref": c.get("ref", "DESIGN.md section 5 (%s)" % pid)},
        "level_note": c["note"],
        "technique": c["technique"],
    })
na = []
for pid in ids:
    if pid not in CHECKS:
        na.append({"property_id": pid, "reason": NOT_APPLICABLE.get(pid, "check not built yet (work in progress; see DESIGN.md section 5)")})
m = {
    "version": 1,
    "setup_cmd": "true",
    "hooks": {"guard": "TWISTED_MQTT_VERIF", "enable": "no hooks: the static analysis reads /repo sources only; nothing is built or instrumented",
              "baseline_off_cmd": "cd /repo && /venv/bin/python -m pytest -q -p no:cacheprovider --timeout=900 --continue-on-collection-errors",
              "source_commits": [], "add_only": True},
    "engines": [{"name": "sa", "path": "/verif/sa", "serves_properties": [c["property_id"] for c in checks],
                 "kind_free_text": "repository-specific static analyser on Python ast: program model, path-sensitive event abstraction with inlining, "
                                   "dispatch matrix, who-may-do tables, timer-handle typestate, codec layout extraction"}],
    "checks": checks,
    "not_applicable": na,
    "notes": NOTES,
}
json.dump(m, open("/verif/MANIFEST.json", "w"), indent=1)
print("claimed:", [c["property_id"] for c in checks])
