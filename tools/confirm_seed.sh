#!/bin/bash
# tools/confirm_seed.sh <worktree> <seed-id> <property>: confirm a seeded change independently (from its mutation.diff, applied to a
# clean checkout of the worktree; no git stash: the stash is shared between worktrees) and store it under /verif/seeded/<seed-id>/
wt=$1; sid=$2; prop=$3
cd $wt || exit 2
[ -s mutation.diff ] || { echo "no mutation.diff in $wt"; exit 2; }
cp mutation.diff /tmp/confirm_$sid.diff
git checkout -q -- src
[ -f src/mqtt/_version.py ] || echo '__version__ = version = "0.0.0+scratch"' > src/mqtt/_version.py
base=$(PYTHONPATH=$wt/src /venv/bin/python -m pytest -q -p no:cacheprovider --timeout=900 --continue-on-collection-errors 2>&1 | tail -1)
PYTHONPATH=$wt/src timeout 300 /venv/bin/python demo.py > /tmp/confirm_$sid.without 2>&1; rc_without=$?
git apply /tmp/confirm_$sid.diff || { echo "mutation.diff does not apply"; exit 2; }
suite=$(PYTHONPATH=$wt/src /venv/bin/python -m pytest -q -p no:cacheprovider --timeout=900 --continue-on-collection-errors 2>&1 | tail -1)
PYTHONPATH=$wt/src timeout 300 /venv/bin/python demo.py > /tmp/confirm_$sid.with 2>&1; rc_with=$?
echo "suite with change: $suite | without: $base | demo rc with=$rc_with without=$rc_without"
ok=1
echo "$suite" | grep -q "24 failed, 85 passed" || ok=0
[ $rc_with -ne 0 ] || ok=0
[ $rc_without -eq 0 ] || ok=0
if [ $ok -eq 1 ]; then
  d=/verif/seeded/$sid; mkdir -p $d
  cp /tmp/confirm_$sid.diff $d/patch.diff; cp demo.py $d/demo.py; cp NOTES.md $d/NOTES.md 2>/dev/null
  tail -3 /tmp/confirm_$sid.with | cut -c1-300 > $d/demo_output_with_change.txt
  echo "CONFIRMED -> $d"
else
  echo "NOT CONFIRMED"
fi
