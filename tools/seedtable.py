#!/venv/bin/python
"""Rewrites the table of seeded changes in DESIGN.md (between the SEEDED markers) from seeded/*/meta.json."""
import glob, json, re
rows = []
for f in sorted(glob.glob("/verif/seeded/*/meta.json")):
    m = json.load(open(f))
    own = m["breaks_property"]
    caught = m["caught_by"]
    ownr = ", ".join(sorted({x.split()[0] for x in caught.get(own, {}).get("findings", [])})) or "-"
    others = ", ".join(k for k in sorted(caught) if k != own) or "-"
    first = m.get("first_run", "caught")
    rows.append("| %s | %s | %s | %s | %s | %s |" % (m["seed"], own, m["needs_to_manifest"], ownr, others, first))
table = "\n".join(["| seed | property | needs, to manifest | rules of that property's check that fire | other checks that fire | when first tried |",
                   "|---|---|---|---|---|---|"] + rows)
p = "/verif/DESIGN.md"
s = open(p).read()
a, b = "<!-- SEEDED:BEGIN -->", "<!-- SEEDED:END -->"
if a not in s:
    s += "\n\n### 9.5 Seeded changes written by independent sub-agents\n\n" + a + "\n" + b + "\n"
s = s[:s.index(a) + len(a)] + "\n" + table + "\n" + s[s.index(b):]
open(p, "w").write(s)
print(len(rows), "rows")
