#!/usr/bin/env python3
"""tools/agent_prompt.py <property id> <suffix> [break|neutral] : print the prompt given to a fresh sub-agent (seeded defect, or
behaviour-preserving refactoring) working in the scratch worktree /tmp/wt_<id><suffix>.  The agent gets the property text only."""
import glob
import json
import sys

pid = sys.argv[1]
n = sys.argv[2] if len(sys.argv) > 2 else ""
mode = sys.argv[3] if len(sys.argv) > 3 else "break"
wt = "/tmp/wt_%s%s" % (pid, n)
prop = None
for line in open("/verif/properties.jsonl"):
    d = json.loads(line)
    if d["id"] == pid:
        prop = "%s\n\n%s\n\n(It must hold for: %s)" % (d["title"], d["statement"], d["quantifier"]["text"])
assert prop, pid

COMMON = f"""The library is twisted-mqtt (a Twisted-based MQTT 3.1/3.1.1 client: PDU encoder/decoder in src/mqtt/pdu.py plus a client state machine in src/mqtt/client/*.py). You have your own scratch git worktree of it at {wt} (work ONLY there; never touch /repo or /verif, and do not read anything under /verif). src/mqtt/_version.py already exists in the worktree as a git-ignored stub (needed for imports); leave it alone. NEVER use `git stash`: the stash is shared with other worktrees of the same repository and other people are using them concurrently.

Here is a semantic property the library is supposed to satisfy:

{prop}
"""
SUITE = f"""Run the existing test suite with:
        cd {wt} && PYTHONPATH={wt}/src /venv/bin/python -m pytest -q -p no:cacheprovider --timeout=900 --continue-on-collection-errors 2>&1 | tail -3
      (PYTHONPATH is essential: without it the tests import the original library from /repo.) The expected result, before and after your change, is exactly 85 passed, 24 failed - those 24 failures are pre-existing and expected."""
FACTS = """Useful facts: mqtt.pdu classes are imported by name (from mqtt.pdu import CONNACK, PUBACK, ...; `import *` does not work). A protocol is obtained with MQTTFactory(profile).buildProtocol(addr) where profile is MQTTFactory.PUBLISHER, MQTTFactory.SUBSCRIBER or their bitwise or; call protocol.makeConnection(transport), protocol.connect("id", keepalive=0, cleanStart=True), then feed broker packets with protocol.dataReceived(CONNACK-bytes) etc. Use twisted.test.proto_helpers.StringTransport / StringTransportWithDisconnection (set transport.protocol = protocol; it calls connectionLost synchronously) and twisted.internet.task.Clock assigned to protocol.callLater, as the existing tests in src/mqtt/client/test do."""

EXTRA = ""
if mode == "neutral2":
    mode = "neutral"
    EXTRA = """IMPORTANT - be original: an earlier round of refactorings of this library already used the following reshapes, so do NOT make them the core of yours (they may appear incidentally); look for DIFFERENT, equally legitimate ways a maintainer might restructure the code:
  - merging the four alarm-cancelling loops of doConnectionLost into one loop over a tuple of registries; `.items()` -> `.values()`; `x = w[k]; del w[k]` -> `w.pop(k)`; an extracted `_failWindow`/`_disarm` helper;
  - try/except KeyError/else -> early return, `in` test, `dict.get` + `is None`;
  - the connectError / doPingError closures turned into bound methods; handleCONNACK split into accepted/refused helpers; `_stopKeepalive`/`_cancelPingAlarm` helpers; `if cleanStart:` block -> early return;
  - `while a and b` -> `while a: if not b: break`; local aliases for `self.factory.windowX[self.addr]`;
  - a `_transmit`/`_send` helper for `transport.write`; `_makeRelease` for the PUBREL construction; merged `_retrySubscribe`/`_retryUnsubscribe`;
  - in pdu.py: a `_stripFixedHeader` helper, `_serialize`, `_frame`/`_seal`, divmod-based encode16Int, shift-counter decodeLength.
Ideas in other directions (only where they are provably equivalent): move logic between the state classes and the protocol class (e.g. a state method doing part of the work itself, or the protocol asking `self.state` a question), replace if/elif chains on constants by small lookup tables or the reverse, replace boolean flags by sentinel values or the reverse, use `else` clauses of loops, `enumerate`/`zip`/`reversed(list(..))` where order is provably unaffected, `functools.partial` or lambdas for timer callbacks, class-level constants for magic numbers, properties or small private accessor methods for repeated attribute chains, conditional expressions, tuple unpacking, chained comparisons, `any()`/`all()`, list/dict comprehensions, context-free reordering of guard clauses, splitting a long method into phases, inlining a trivial helper, changing which of two equivalent fields is consulted (e.g. `request.msgId` vs `response.msgId` where provably equal), etc.
"""
if mode == "neutral3":
    mode = "neutral"
    EXTRA = """IMPORTANT - be original: two earlier rounds of refactorings of this library already used the following reshapes, so do NOT make them the core of yours (they may appear incidentally); look for DIFFERENT, equally legitimate ways a maintainer might restructure the code:
  - merged alarm-cancelling loops, `.items()`/`.values()`/`.pop()` swaps, `_failWindow`/`_disarm` helpers; try/except KeyError <-> `in` test <-> `dict.get`; closures <-> bound methods; handleCONNACK split into helpers; `while a and b` <-> `while a: if not b: break`; local aliases and @property accessors for `self.factory.windowX[self.addr]`; `_transmit`/`_send`/`_makeRelease` helpers; merged `_retrySubscribe`/`_retryUnsubscribe`;
  - in pdu.py: base classes / template methods (`_body()`, `_parse()`), class constants for the first byte, `_stripFixedHeader`, divmod-based encode16Int, shift-counter or digit-list decodeLength, comprehensions building the payload, tuple assignments;
  - the state machine built from a class-level STATES tuple, mixin state classes, REFUSALS tables; dispatch tables keyed by QoS; sentinel objects; work lists of (method, request) pairs; generators and itertools.chain over the windows; a collected set of identifiers in use; a priming-read framing loop with a `_frameSize()` helper; `iter(f, None)`.
Ideas in other directions (only where provably equivalent): reorganise *where* a decision is taken (e.g. compute a flag once and pass it down, or push a test into the callee); replace a loop by recursion-free helper calls per registry or the reverse; use `dataclass`-free small named tuples for constant tables; early `continue` instead of nested ifs; `next(iter(...), None)`; `dict.setdefault` / `collections.OrderedDict` only where order is provably unaffected; splitting `doConnect`/`connectionLost`/`buildProtocol`/`makeId` into phases with differently shaped guards; renaming private attributes consistently; swapping which of two provably equal values is used; hoisting or sinking statements across independent statements; turning boolean expressions around (De Morgan, comparison flipped with operands swapped); replacing `len(x) > 0` style tests by truthiness where provably equivalent; integer arithmetic rewritten (`% 65536` <-> `& 0xFFFF`, `x or 1`, `max(x, 1)` only where equal).
"""
if mode == "neutral4":
    mode = "neutral"
    EXTRA = """IMPORTANT - be original: three earlier rounds of refactorings of this library already used the following reshapes, so do NOT make them the core of yours (they may appear incidentally); look for DIFFERENT, equally legitimate ways a maintainer might restructure the code:
  - merged alarm-cancelling loops, `.items()`/`.values()`/`.pop()` swaps, `_failWindow`/`_disarm` helpers; try/except KeyError <-> `in` test <-> `dict.get`; closures <-> bound methods; handleCONNACK split into helpers; `while a and b` <-> `while a: if not b: break`; local aliases and @property accessors for `self.factory.windowX[self.addr]`; `_transmit`/`_send`/`_makeRelease` helpers;
  - in pdu.py: base classes / template methods, class constants for the first byte, `_stripFixedHeader`, divmod/shift variants of the integer primitives, comprehensions building the payload, position-based decoders (`pos += k`), namedtuple layout tables;
  - state machine built from tables, mixins, REFUSALS tables, dispatch tables keyed by QoS, sentinel objects, work lists, generators / itertools.chain over the windows, `next(genexp, default)`, for-else loops, priming-read framing loop.
Ideas in other directions (only where provably equivalent) - housekeeping code is a good place to look:
  - how timer handles are looked after: a small helper that cancels a handle AND clears the attribute that holds it (used wherever both happen today), a helper that stops the keepalive machinery, `handle, self.x = self.x, None` swaps before cancelling, testing `is not None` instead of truthiness where the value can only be None or a handle;
  - how the protocol changes state: a `_enter(state)` / `_becomeIdle()` helper, assigning the state through a local, computing the next state in a conditional expression;
  - how the parameters of a CONNECT are remembered (one helper, tuple assignment, reading them back from the pending request object where provably the same object);
  - how "a slot became free" is reacted to (a `_slotFreed()` helper shared by the acknowledgement handlers, a guard "anything waiting?" in front of the refill, the refill called from a `finally`-free common tail);
  - in pdu.py: loop conditions written as `len(rest) > 0` / `rest != b''` style tests where provably equivalent, explicit `errors='strict'` / `codecs.decode`, `bytes.decode` on a `bytes(...)` copy, `int.from_bytes` / `int.to_bytes` for the 16-bit primitives, `struct.pack('>H')` / `struct.unpack_from`;
  - arithmetic and comparisons turned around; `not (a and b)` <-> `not a or not b`; chained comparisons split; `elif` ladders reordered when the tests are mutually exclusive; small private predicates (`_isPersistent()`, `_windowHasRoom()`), class-level constants for magic numbers (10 s default timeout, 0.1 s notification delay, 65535).
"""
if mode == "neutral5":
    mode = "neutral"
    EXTRA = """IMPORTANT - be original: four earlier rounds of refactorings of this library already used the following reshapes, so do NOT make them the core of yours (they may appear incidentally); look for DIFFERENT, equally legitimate ways a maintainer might restructure the code:
  - merged alarm-cancelling loops, `.items()`/`.values()`/`.pop()` swaps; try/except KeyError <-> `in` test <-> `dict.get` <-> early return; closures <-> bound methods; handleCONNACK split into helpers, `_enter(state)`, next state by a conditional expression, `_rememberSession`, `_startKeepalive`/`_stopKeepalive`, cancel-and-clear helpers, `handle, x.alarm = x.alarm, None`; `_slotFreed()` with a guard, `_isPersistent()`, `_windowHasRoom()`; `_arm(request, delay, cb)`; class constants for magic numbers;
  - in pdu.py: base classes / template methods, `_seal`/`_frame` helpers, `int.to_bytes`/`int.from_bytes`/`struct`, position-based decoders, namedtuple tables, `enumerate`-based decodeLength, explicit range guards;
  - tables for the state machine, mixins, dispatch tables, sentinel objects, work lists, generators, `next(genexp, default)`, for-else, priming-read framing loop, `_frameSize()`/`_packetSize()` helpers, `del buf[:n]`, classmethods, `setdefault` loops in buildProtocol, a collected set of identifiers in use.
Ideas in other directions (only where provably equivalent):
  - how requests are built from the arguments of connect()/publish()/subscribe()/unsubscribe(): a small factory helper (`_newRequest(cls, **fields)` using setattr in a loop, or a classmethod on the PDU), a tuple of (attribute, value) pairs, arguments normalised first (`qos = int(qos)` only where provably identical), keyword-only re-ordering;
  - how optional application callbacks (onPublish, onDisconnection, onMqttConnectionMade) are invoked: read into a local first, `callable(cb)`, an `_notify(name, *args)` helper using getattr, a no-op default tested by identity;
  - how the argument checks are written: `isinstance(x, (list,))`, `type(x) is list` only where provably the same for the inputs that matter, checks moved into small `_requireXxx` helpers that raise, a table of (predicate, exception) pairs walked in order, De Morgan / chained comparisons, `not 0 <= q <= 2`;
  - how delays are computed (`base = request.interval(); delay = base + share` with `share = len(w) / 4.0`, a `_retryDelay(request, window)` helper) and how deadlines are cancelled (a `_settleConnect(request)` helper that cancels the deadline and returns the Deferred, cancel placed in both branches instead of before the `if`);
  - how loops that empty a window are written (`while w: k, r = w.popitem()` ONLY where the order is provably unobservable - otherwise keep the order - `for k in tuple(w)`, `list(w.items())` snapshots with `del`), how the framing loop tests its minimum (`len(buf) <= 1`, `not len(buf) > 1`), reading `self._buffer` through a local that is re-read after each dispatch;
  - module-level helper functions instead of methods where `self` is not needed, `functools.partial` for timer callbacks with their request bound, `operator` functions, `any()`/`all()` over small tuples, `dict.fromkeys`, tuple-returning helpers unpacked at the call site.
"""
if mode == "neutral6":
    mode = "neutral"
    EXTRA = """IMPORTANT - be original: five earlier rounds of refactorings of this library already used the following reshapes, so do NOT make them the core of yours (they may appear incidentally); look for DIFFERENT, equally legitimate ways a maintainer might restructure the code:
  - merged alarm-cancelling loops, `.items()`/`.values()`/`.pop()` swaps; try/except KeyError <-> `in` test <-> `dict.get`; closures <-> bound methods; handleCONNACK split into helpers, `_enter(state)`, `_startKeepalive`/`_stopKeepalive`, cancel-and-clear helpers, `_arm(request, delay, cb)`, class constants for magic numbers, `_newRequest(cls, **fields)`, `_notify(name, *args)`, tables of (predicate, exception) pairs, `functools.partial` timer callbacks, module-level helper functions;
  - in pdu.py: base classes / template methods, `int.to_bytes`/`struct`, position-based decoders, namedtuple tables, `bytearray().join(map(helper, items))`, `divmod`, concatenation-assembled packets;
  - tables for the state machine, mixins, dispatch tables, sentinel objects, work lists, `next(genexp, default)`, for-else, priming-read framing loop, `del buf[:n]`, classmethods, `setdefault` loops in buildProtocol, a collected set of identifiers in use.
Ideas in other directions (only where provably equivalent for every input that matters - argue it in NOTES.md):
  - EAFP instead of tests, placed so that nothing else changes: `try: request.alarm.cancel() except AttributeError: pass` PER ENTRY instead of `if request.alarm is not None` (only where the handle, when not None, is provably still pending), `try/except IndexError` around a single indexing instead of a length test, `contextlib.suppress`;
  - iterators and generators used CORRECTLY: a generator method that yields the (key, request) pairs of several windows consumed by exactly one `for`; `itertools.chain`/`chain.from_iterable` over the windows; a fresh generator created for every membership test; `any(... for ...)`; `set(generator)` built once in front of a loop and tested many times; `iter()`/`next()` with a default;
  - flag bytes in pdu.py read and written differently but identically: `(flags >> 5) & 0x01 == 1`, `bool(flags & 0x20)`, `flags & 0x20 == 0x20`, a table of (mask, attribute) pairs walked in a loop, masks as named constants, `qos = (byte0 & 0x06) >> 1`, flags assembled with `+` of disjoint bits or `sum(...)`, `int(bool) << n`;
  - range checks written differently but accepting exactly the same values: `qos not in (0, 1, 2)`, `qos not in range(3)`, `not 0 <= qos <= 2`, `qos < 0 or qos > 2`, bounds as class constants (`MAX_QOS = 2`), a `_checkRange(value, lo, hi, exc)` helper, `min`/`max` clamps ONLY where provably not changing what is accepted;
  - what is stored for retransmission: the encoded packet kept under another name, a `_wire(request)` helper returning the bytes to write, the DUP patch done by a small `_markDup(request)` helper or with `|= 0x08`, `request.encoded` wrapped in `bytes()` at write time;
  - the loss path and the CONNACK path restructured: one loop over `(window, exception)` pairs, the clean/persistent decision computed once into a local, clean-up phases as private methods called in the same order, `list(w.values())` snapshots."""
if mode == "neutral7":
    mode = "neutral"
    EXTRA = """IMPORTANT - be original: six earlier rounds of refactorings of this library already used the following reshapes, so do NOT make them the core of yours (they may appear incidentally); look for DIFFERENT, equally legitimate ways a maintainer might restructure the code:
  - merged alarm-cancelling loops over chain(...) / chain.from_iterable / generator methods, per-entry try/except AttributeError, contextlib.suppress, `_markDup` / `_wire` / `_transmit` helpers, `_failWindow(window, reason, ...)`, handlers with early return, `_releaseFor`, `_newRequest(cls, **fields)`, validators as generators, tables of (predicate, exception) pairs, class-level state classes, properties for the per-address windows, `any()` over fresh generators in `_idInUse`, counted `while` in `makeId`;
  - in pdu.py: named mask constants, `bool(flags & M)`, `(flags >> 1) & 3`, `_variablePart` / `fixedHeaderSize` helpers, `_assemble(header, *sections)`, `int.to_bytes` / `struct`, `divmod`, `bytearray((a, b))`, generator framer `_completePackets()`.
Ideas in other directions (only where provably equivalent for every input that matters - argue it in NOTES.md):
  - keepalive and CONNECT handling: `keepalive` normalised or named differently on its way into the request WITHOUT changing its value (a local alias, a `_connectRequest(...)` builder taking keyword arguments, the request built by a classmethod `CONNECT.fromArguments(...)`), the LoopingCall created by a small `_startKeepalive(period)` helper that creates, stores AND starts it, the PINGREQ deadline armed by `_expectPingresp()`;
  - the CONNACK path: `mqttConnectionMade` split into `_restoreSession()` + `_announceConnection()` called in the SAME order (session code first, application hook last), the hook invoked through a local / `getattr` / a `_fire(name)` helper, the clean/persistent decision as a dict of bound methods keyed by the flag;
  - buildProtocol: the per-address containers created by a `_slots(addr)` helper, `collections.deque` imported under another name or constructed through `self.queueFactory = deque` (still unbounded), `dict.setdefault` / `addr not in registry` tests, a namedtuple or small class bundling the six containers of an address ONLY if every access goes through it consistently;
  - PUBLISH / PUBREL first byte in pdu.py built differently but identically: `flags = (dup << 3) | (qos << 1) | retain` computed once and or-ed onto 0x30 in BOTH the qos and the no-qos case where the original does, a `_publishFlags()` helper, `header[0] = 0x30; header[0] |= retain; if qos: header[0] |= ...` keeping exactly the bits each case had;
  - subscribe()/unsubscribe() argument normalisation written as a small function returning the list of (topic, qos) pairs for the three accepted shapes (string + qos, one pair, list of pairs), `isinstance` chains reordered where exclusive, `list(topics)` copies ONLY where unobservable;
  - identifier allocation: `makeId` as `itertools.islice`/`count` based search, `_idInUse` as a set built per call, the counter advanced by a helper `_nextCandidate()`; never returning 0 and never skipping the in-use test;
  - timers: `callLater` wrapped by `_later(delay, fn, *args)`, retry callbacks bound with `functools.partial` or lambdas with default arguments, `alarm` handles swapped through a `_rearm(request, delay, callback)` that cancels nothing and only stores the new handle where the original did."""
if mode == "neutral8":
    mode = "neutral"
    EXTRA = """IMPORTANT - be original: seven earlier rounds of refactorings of this library already used the following reshapes, so do NOT make them the core of yours (they may appear incidentally); look for DIFFERENT, equally legitimate ways a maintainer might restructure the code:
  - chain()/generator-based loops over the windows, per-entry try/except, `_markDup`/`_wire`/`_transmit`/`_later`/`_rearm` helpers, `_failWindow`, early-return handlers, `_restoreSession` + `_announceConnection`, dict of bound methods keyed by a flag, `_slots(addr)`, `islice(iter(...))` in makeId, `_connectRequest(...)` builders, `_startKeepalive`, validators as generators or tables, mix-in state classes, base classes for the acknowledgement PDUs, named mask constants, `_variablePart`, `_assemble`, `_Cursor`.
Ideas in other directions (only where provably equivalent for every input that matters - argue it in NOTES.md):
  - defensive checks that reject ONLY what was already rejected (or could not occur): in decoders `if len(rest) < 2: raise IndexError(...)` style checks placed where the original would raise the same exception class anyway, `assert`-free explicit length tests that use `>` where a packet may legitimately end exactly there; in `PUBLISH.encode` the size limit written as `(1 << 28) - 1`, `0x0FFFFFFF` or `128 ** 4 - 1`;
  - `MQTTFactory._idInUse` / `makeId` organised differently but still looking at every window of every address and the queue for every candidate: one helper per registry kind called unconditionally, a tuple of registries built by a `_registriesInUse()` method, `any(msgId in w for reg in ... for w in reg.values())`, the queue scanned first;
  - `buildProtocol`: the six per-address containers created by a comprehension over registry names with `getattr`, by `setdefault`, or by a small `_AddressSlots` helper - each registry still gets its OWN fresh container for a new address and keeps the existing one otherwise;
  - registration order in doPublish/doSubscribe/doUnsubscribe kept exactly (validate, allocate id, encode, THEN register and arm) but expressed through helpers (`_register(window, request)`, `_encodeOrFail(request)` returning a failed Deferred or None);
  - the clean-session purge and the loss clean-up using `window.pop(k)` AFTER every test that decides whether the entry is touched, `popitem()`-free, key snapshots via `tuple(window)` / `sorted(window)` only where the order is provably unobservable - otherwise keep insertion order;
  - connectionLost in base.py restructured with guard clauses that still reset the state to IDLE and schedule the notification on every path; handleCONNACK cancelling the CONNACK deadline first on BOTH outcomes;
  - keepalive bookkeeping (`_pingReq` fields) moved into a tiny `_Keepalive` helper object or namedtuple-like class with `timer`/`alarm`/`keepalive` attributes and methods that do exactly the old statements; no `reset()`/`delay()` calls;
  - setters (`setWindowSize`, `setTimeout`, `setBandwith`) with their bounds as class constants and the test written as `not (LO <= n <= HI)`, `n < LO or n > HI`, or via a shared `_within(n, lo, hi)` predicate; never `range()` membership (it rejects non-integers and excludes the end)."""
if mode == "break":
    used = []
    for f in sorted(glob.glob("/verif/seeded/%s-*/meta.json" % pid)):
        used.append(json.load(open(f)).get("idea") or json.load(open(f))["needs_to_manifest"])
    avoid = ""
    if used:
        avoid = "\n\nIMPORTANT - be original: earlier attempts at this same property already produced changes that manifest under the following circumstances, so do NOT reuse them or close variants of them; pick a different function, mechanism or clause of the property:\n" + \
            "\n".join("  %d. %s" % (i + 1, u) for i, u in enumerate(used)) + \
            "\nPrefer a change in which the code keeps looking locally reasonable (e.g. a value computed slightly wrong, a condition that is right in the common case, an ordering between two statements, state kept a little too long or dropped a little too early, an interaction between two functions)."
    print(f"""You are helping to test a verification tool by producing a *seeded defect* for a small Python library.

{COMMON}
YOUR TASK: make ONE small, realistic change to the library source in {wt}/src/mqtt (not to its tests) that BREAKS this property, while
  (a) the code still imports/compiles, and
  (b) the existing test suite still gives exactly the same results as before. {SUITE}
  (c) the breakage needs something SPECIFIC to manifest - a particular interleaving or ordering of events, a fault or connection loss at a particular point, a multi-step sequence of operations, an unusual input or boundary value, or two cooperating code sites that each look fine alone. Do NOT produce a change that any ordinary use would expose at once (e.g. breaking every publish).
The change should look like something a developer could plausibly write (a refactor gone slightly wrong, an off-by-one, a dropped cancel, a condition made too weak, a wrong branch, ...), not like sabotage, and must not add comments that reveal it.

Also write a demonstration: a small self-contained Python script {wt}/demo.py (plain asserts or a pytest-style test, your choice) that drives the real library code and that FAILS (non-zero exit) with your change and PASSES (exit 0) on the unmodified code. Check both: run it with the change, then revert your change with `git -C {wt} diff -- src > {wt}/p.diff; git -C {wt} apply -R {wt}/p.diff`, run it again (must pass), then re-apply with `git -C {wt} apply {wt}/p.diff`. Run it as: cd {wt} && PYTHONPATH={wt}/src /venv/bin/python demo.py

{FACTS}

DELIVERABLES (all inside {wt}):
  1. the source change left applied in the working tree (do not commit), and saved as a patch: `git -C {wt} diff -- src > {wt}/mutation.diff`
  2. {wt}/demo.py as described
  3. {wt}/NOTES.md: 5-10 lines - which clause of the property breaks, what is needed for it to manifest, and the exact commands you ran with their results (suite result with the change; demo result with and without the change).
Finish with a short final message summarising the change (file, function), why the existing tests do not notice, and what triggers the failure.{avoid}""")
else:
    print(f"""You are helping to test a verification tool by producing a *behaviour-preserving refactoring* of a small Python library: the tool must stay silent on code in which a property still holds, however the code is written.

{COMMON}
YOUR TASK: refactor the library source in {wt}/src/mqtt (not its tests) in the places that IMPLEMENT this property, the way a maintainer tidying the code would, so that the property STILL HOLDS exactly as before and the observable behaviour of the library (bytes written, Deferred results, callbacks, timers armed/cancelled, state) is unchanged for every input and event order. Make the refactoring substantial rather than cosmetic: touch at least three functions relevant to the property and change their shape, for example
  - restructure control flow (early return instead of else, try/else instead of early return, merged or split loops, a while instead of a for, guard clauses reordered when independent),
  - extract a helper method or inline one, move shared code into a small private function, turn a closure into a bound method or the reverse,
  - rename locals and private helpers/attributes consistently, introduce local aliases for long attribute chains,
  - use an equivalent idiom (dict.get/pop with default vs try/except KeyError, `in` test before indexing, tuple/list/dict tables with the lookup adjusted accordingly, comprehension vs loop, augmented assignment, `is None` vs truthiness only where provably equivalent),
  - reorder statements that are independent of each other.
{EXTRA}Do NOT change behaviour, public API names, exception types, what is written to the transport, or the order of observable effects. Do not touch code unrelated to this property. Requirements:
  (a) the code still imports/compiles, and
  (b) the existing test suite still gives exactly the same results as before. {SUITE}
  (c) you have convinced yourself, function by function, that behaviour is identical - also on the unusual paths (connection loss at any point, duplicate or unknown acknowledgements, malformed input, boundary values, both session modes, every profile).

Also write a demonstration {wt}/demo.py: a self-contained script (plain asserts) that drives the real library code through scenarios relevant to the property - including some unusual ones - and checks the property's clauses; it must PASS (exit 0) both on the unmodified code and with your refactoring. Check both: run it with the refactoring, then revert with `git -C {wt} diff -- src > {wt}/p.diff; git -C {wt} apply -R {wt}/p.diff`, run it again, then re-apply with `git -C {wt} apply {wt}/p.diff`. Run it as: cd {wt} && PYTHONPATH={wt}/src /venv/bin/python demo.py

{FACTS}

DELIVERABLES (all inside {wt}):
  1. the refactoring left applied in the working tree (do not commit), and saved as a patch: `git -C {wt} diff -- src > {wt}/mutation.diff`
  2. {wt}/demo.py as described
  3. {wt}/NOTES.md: which functions were reshaped and how, and for each a one-paragraph argument why behaviour is unchanged; the exact commands you ran with their results (suite with the refactoring; demo with and without it).
Finish with a short final message listing the functions you reshaped and the idioms you swapped.""")
