import sys
sys.path.insert(0, "/repo/src")
from twisted.test import proto_helpers
from twisted.internet import task
from mqtt.client.factory import MQTTFactory
from mqtt.pdu import CONNACK

def connack():
    a = CONNACK(); a.session = False; a.resultCode = 0
    return a.encode()

f = MQTTFactory(MQTTFactory.PUBLISHER)
clock = task.Clock()
def build():
    p = f.buildProtocol("addr")
    t = proto_helpers.StringTransportWithDisconnection()
    t.protocol = p
    p.callLater = clock.callLater
    p.makeConnection(t)
    return p, t

# persistent session, window 1, one QoS 1 publish in flight when the connection is lost
p, t = build()
p.connect("client", keepalive=0, cleanStart=False)
p.dataReceived(connack())
dA = p.publish(topic="a/inherited", qos=1, message="A"); dA.addErrback(lambda f: None)
t.loseConnection()

# next connection asks for a clean session; a publish made before its CONNACK waits behind the inherited one
p, t = build()
p.connect("client", keepalive=0, cleanStart=True)
dB = p.publish(topic="b/new", qos=1, message="B")
t.clear()
p.dataReceived(connack())          # the inherited publish is purged; the window is empty now
written = bytes(t.value())
print("window:", len(f.windowPublish["addr"]), "queued:", len(f.queuePublishTx["addr"]), "bytes written after CONNACK:", len(written))
assert b"b/new" in written, "accepted publish left unsent: connection up, nothing outstanding, queue not empty"
