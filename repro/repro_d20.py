import sys
sys.path.insert(0, "/repo/src")
from twisted.test import proto_helpers
from twisted.internet import task
from mqtt.client.factory import MQTTFactory
from mqtt.pdu import CONNACK

f = MQTTFactory(MQTTFactory.PUBLISHER)
p = f.buildProtocol("addr")
t = proto_helpers.StringTransport()          # reports the loss only when told to (as real TCP does, later)
clock = task.Clock()
p.callLater = clock.callLater
p.makeConnection(t)
d = p.connect("client", keepalive=0, cleanStart=True)
errs = []
def again(failure):
    errs.append(failure.type.__name__)
    d2 = p.connect("client", keepalive=0, cleanStart=True)     # the application retries at once
    d2.addErrback(lambda f: errs.append("second: " + f.type.__name__))
d.addErrback(again)
ack = CONNACK(); ack.session = False; ack.resultCode = 5
p.dataReceived(ack.encode())
data = bytes(t.value())
n = 0; i = 0
while i < len(data):
    typ = data[i] >> 4
    # remaining length
    mult, val, j = 1, 0, i + 1
    while True:
        b = data[j]; val += (b & 0x7F) * mult; mult *= 128; j += 1
        if not b & 0x80: break
    if typ == 1: n += 1
    i = j + val
print("errbacks:", errs, "| CONNECT packets on this one connection:", n, "| state:", type(p.state).__name__)
